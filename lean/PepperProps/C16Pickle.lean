import PepperProofs.Pickle
/-!
# C16Pickle — `pickle` inside the model (supports C16)

Model: `PepperModel/Pickle.lean` — a heap of cells with references, the unpickler `run` (mirror of `pickle._Unpickler`), the
abstract pickler `dump` (mirror of `_pickle.c: save` at protocol 4 with CPython's memo discipline and batching) and the
canonical form `canon` of a rooted heap.  Tied to the running CPython on every run of the C16 check
(`harness/pickleio.py`, section `[pickle model]` of `harness/props/c16.py`): for every compiled program the REAL bytes of
`out.save` are run through `run`, the in-memory object graph and the graph reloaded in a fresh process are walked by
`id()` and canonised by the Lean `canon`, and `dump` of the walked heap is compared opcode by opcode with the real pickle.

`snapshotOfHeap` (model) reads the C16 snapshot (`harness/snapshot.py`, the model's `snapshot` op) off a decoded heap; the
driver op `pickle-snapshot` applies it to the heap decoded from the real bytes and the harness compares the result with the
model's own snapshot of the compile on every run (validated, no theorem about it here).

What is proved here, strongest first:

* **T1 `canon_iso`** (proved): two rooted heaps with the same canonical form have isomorphic reachable parts — a relation `R`
  between references that is a bijection between the reachable non-atomic cells, maps root to root, and under which
  related cells have the same tag (kind + payload) and pointwise related kids; atoms (`None`, bools, ints, floats, `()`)
  are related by value.  Sharing and cycles are part of this: `R` is one-to-one on cells, not on paths.  The CONVERSE
  (isomorphic ⇒ equal canonical forms) is NOT proved.
* **T2 `roundtrip`** (proved, under the well-formedness hypothesis `Supported`): for every heap made of atoms, strings,
  bytes, tuples, lists, string-keyed dicts, classes and instances (`NEWOBJ` / `REDUCE`, dict items, state + `BUILD`) in which
  an instance's state dict belongs to that instance alone — with arbitrary sharing and arbitrary cycles, in particular
  cycles through instances — `run (dump h r) = ok (h', r')` and `canon h' r' = canon h r`.  These are the shapes of the real
  `.save` heaps: the hypothesis has a decidable form `supportedB` (`supportedB_sound`) which the driver evaluates on every
  in-memory heap of every run (op `pickle-supported`), so for those heaps the round trip is a THEOREM, not only an evaluated
  check.  Size limits in `Supported` (one batch: lists ≤ 1000 elements, dicts < 1000 pairs), no sets / frozensets, no list
  items or constructor arguments on instances, string keys only.  The unconditional statement `RoundtripStatement` is FALSE
  (`roundtripStatement_false`).  Also kept: `roundtrip_of_check` (any heap on which the evaluated check `roundtripB` is
  true) and `roundtrip_partial` (atoms / strings in ANY heap, no hypothesis).
* **T3** (proved): `run` is a total function of the opcode list; `BINGET` pushes the memoised reference itself; `MEMOIZE`
  leaves heap and stack alone; one opcode rewrites no old cell outside its `targets` (`APPEND(S)` / `SETITEM(S)` /
  `ADDITEMS`: the one container under the items; `BUILD`: the instance and its attribute dict), never shrinks the heap,
  and the value-creating opcodes push the first unused reference.

Not modelled (stays validated by the harness or trusted): the C implementation `_pickle` versus `pickle.py`; `find_class`
(that the fresh process finds the same classes by module path); calling `cls.__new__` / the reduce callable (modelled as
"a new object that remembers how it was made"); `sys.intern` of attribute names; the interpreter's singleton strings (`""`
and 1-character strings are handed out as singletons by the real unpickler, so their identity in a live graph is not
preserved — found by the harness, which compares graphs modulo the identity of such strings); `__setstate__` (explicit `unsupported` — no
pickled class of peppercompiler defines one, the harness reports it if one appears); `BINFLOAT` payload opaque (8 bytes).
-/
namespace Pepper.C16Pickle.Props
open Pepper.Pickle

/-! ### T1 -/

/-- **T1.** If two rooted heaps have the same canonical form, their reachable parts are isomorphic: there is a relation `R`
    with `Iso h r h' r' R` — root related to root; `R` relates exactly reachable non-atomic cells, is total on both sides,
    functional and injective; related cells have equal tags and pointwise related kids (atoms related by value). -/
theorem canon_iso {h h' : Heap} {r r' : Ref} {c : Canon} (hc : canon h r = some c) (hc' : canon h' r' = some c) :
    ∃ R, Iso h r h' r' R :=
  Pepper.Pickle.canon_iso hc hc'

/-- **T1, converse.**  Isomorphic rooted heaps have the same canonical form: if `R` is an isomorphism between the parts
    reachable from `r` in `h` and from `r'` in `h'`, and `h, r` has a canonical form, then `h', r'` has the same one
    (in particular it has one: the fuel of `reach` suffices, no reference dangles). -/
theorem iso_canon {h h' : Heap} {r r' : Ref} {R : Ref → Ref → Prop} (iso : Iso h r h' r' R) {c : Canon}
    (hc : canon h r = some c) : canon h' r' = some c :=
  Pepper.Pickle.iso_canon iso hc

/-- so: two rooted heaps that both have a canonical form have THE SAME one iff their reachable parts are isomorphic -/
theorem canon_eq_iff_iso {h h' : Heap} {r r' : Ref} {c c' : Canon} (hc : canon h r = some c) (hc' : canon h' r' = some c') :
    c = c' ↔ ∃ R, Iso h r h' r' R := by
  constructor
  · intro e; subst e; exact Pepper.Pickle.canon_iso hc hc'
  · rintro ⟨R, iso⟩
    have := Pepper.Pickle.iso_canon iso hc
    rw [hc'] at this; cases this; rfl

/-- the list `reach` returns is duplicate-free and consists of cells reachable from the root … -/
theorem reach_sound {h : Heap} {r : Ref} {o : List Ref} (ho : reach h r = some o) : o.Nodup ∧ ∀ x ∈ o, Reach h r x :=
  Pepper.Pickle.reach_sound ho

/-- … and when the canonical form exists, it lists ALL of them (nothing reachable is lost) -/
theorem canon_complete {h : Heap} {r : Ref} {c : Canon} (hc : canon h r = some c) :
    ∃ o, reach h r = some o ∧ o.length = c.cells.length ∧ ∀ x, Reach h r x → x ∈ o := by
  obtain ⟨o, ho, hroot, hcells⟩ := canon_some hc
  exact ⟨o, ho, (mapOpt_length hcells).symm, reach_complete hroot hcells⟩

/-! ### T2 -/

/-- the round-trip statement WITHOUT a well-formedness hypothesis.  It is FALSE (`roundtripStatement_false` below: a dict with
    two key cells of the same text is merged by the unpickler; an instance state dict that is also referenced from
    elsewhere is copied by `BUILD`, exactly as in Python) — the theorem is `roundtrip`, with the hypothesis `Supported`. -/
def RoundtripStatement : Prop :=
  ∀ (h : Heap) (r : Ref) (ops : List Op), dump h r = .ok ops → (canon h r).isSome → Roundtrip h r

/-- **T2, per instance.**  If the evaluated check says `true` for a rooted heap, then pickling succeeds, unpickling the
    opcodes succeeds, and the decoded graph is isomorphic to the original one — sharing and cycles preserved, nothing
    added or lost among the reachable cells. -/
theorem roundtrip_of_check {h : Heap} {r : Ref} (hb : roundtripB h r = true) :
    ∃ ops h' r', dump h r = .ok ops ∧ run ops = .ok (h', r') ∧ canon h' r' = canon h r ∧ ∃ R, Iso h r h' r' R := by
  obtain ⟨ops, h', r', c, hd, hr, hc, hc'⟩ := (roundtripB_iff h r).mp hb
  exact ⟨ops, h', r', hd, hr, by rw [hc, hc'], Pepper.Pickle.canon_iso hc hc'⟩

/-- **T2 `roundtrip`.**  For every heap that is `Supported` — cell by cell: atoms; strings and bytes; tuples; lists of at most
    1000 elements; dicts of fewer than 1000 pairs whose keys are strings with pairwise different texts; classes; instances
    `obj` made by `NEWOBJ` or `REDUCE` with the empty argument tuple, no list items, dict items like a dict, and as state
    nothing or a non-empty string-keyed dict; and (`Owned`) an instance's state dict is referenced by that one instance
    only and is not the root — with ARBITRARY SHARING AND ARBITRARY CYCLES otherwise (instances pointing at each other,
    `a.wc = b`, `b.wc = a`; containers containing themselves; recursive tuples): if the abstract pickler succeeds on the root
    and the root has a canonical form, then `run (dump h r) = ok (h', r')` and `canon h' r' = canon h r`.
    These are exactly the shapes of the heaps of real `.save` files; the harness evaluates the decidable form `supportedB` of
    the hypothesis on every one of them (`roundtrip_of_supportedB`).
    Proof (`PepperProofs/Pickle.lean`): the simulation invariant `Sim` between the pickler's memo and the unpickler's state
    (memo entries correspond index by index; every memoised cell not on the pickler's recursion stack has a new cell with
    the same tag and related kids; an instance's state dict is related to the attribute dict `BUILD` allocated, not to its
    own memo image), one lemma per `save` case, `iso_of_sim` at `STOP`, then `iso_canon`.
    NOT covered (the unconditional `RoundtripStatement` is FALSE, see the counter-examples below, so hypotheses are needed;
    these particular ones could be weakened): sets and frozensets, lists / dicts of more than one batch, non-string dict
    keys, instances with list items or non-empty argument tuples. -/
theorem roundtrip {h : Heap} {r : Ref} (hS : Supported h r) {ops : List Op} (hd : dump h r = .ok ops)
    {c : Canon} (hc : canon h r = some c) : Roundtrip h r :=
  roundtrip_supported hS hd hc

/-- the same with the hypothesis in its decidable form (what the driver op `pickle-supported` evaluates) -/
theorem roundtrip_of_supportedB {h : Heap} {r : Ref} (hb : supportedB h r = true) {ops : List Op} (hd : dump h r = .ok ops)
    {c : Canon} (hc : canon h r = some c) : Roundtrip h r :=
  roundtrip (supportedB_sound hb) hd hc

/-- … and concluding the isomorphism (T1) -/
theorem roundtrip_iso {h : Heap} {r : Ref} (hS : Supported h r) {ops : List Op} (hd : dump h r = .ok ops)
    {c : Canon} (hc : canon h r = some c) :
    ∃ h' r', run ops = .ok (h', r') ∧ canon h' r' = canon h r ∧ ∃ R, Iso h r h' r' R := by
  obtain ⟨ops', h', r', c', hd', hr, hc1, hc2⟩ := roundtrip hS hd hc
  rw [hd] at hd'; cases hd'
  exact ⟨h', r', hr, by rw [hc1, hc2], Pepper.Pickle.canon_iso hc1 hc2⟩

/-- **T2, fragment "atoms; strings"** — for every heap: a root that is `None`, a bool, an int, a float, the empty tuple,
    a string or a bytes object round-trips.  MISSING for the full statement: every container kind (tuple, list, dict,
    set, frozenset, class, instance), i.e. the whole memo / sharing / cycle argument. -/
theorem roundtrip_partial {h : Heap} {r : Ref} {c : Cell} (hc : h[r]? = some c)
    (hk : c.isAtom = true ∨ (∃ s, c = ⟨.str s, []⟩) ∨ (∃ s, c = ⟨.bytes s, []⟩)) : Roundtrip h r := by
  rcases hk with ha | ⟨s, rfl⟩ | ⟨s, rfl⟩
  · exact roundtrip_atom hc ha
  · exact roundtrip_str hc
  · exact roundtrip_bytes hc

/-! ### T3 -/

/-- `run` is a function of the opcode list: total (always an answer: a heap with a root, or an explicit error) and
    deterministic -/
theorem run_total_deterministic (ops : List Op) : ∃ res, run ops = res ∧ ∀ res', run ops = res' → res' = res :=
  ⟨run ops, rfl, fun _ h => h.symm⟩

/-- `BINGET i` pushes the very reference that was memoised at `i` (sharing = identity), and changes nothing else -/
theorem binget_identity (cfg : Cfg) (v : VM) (i : Nat) (r : Ref) (hm : v.memo[i]? = some r) :
    v.step cfg (.get i) = .ok { v with stack := .ref r :: v.stack } := by
  simp [VM.step, hm, pure, Except.pure]

/-- `MEMOIZE` records the top of the stack at the next index and changes neither heap nor stack -/
theorem memoize_frame (cfg : Cfg) (v v' : VM) (h : v.step cfg .memoize = .ok v') :
    v'.heap = v.heap ∧ v'.stack = v.stack ∧ ∃ r rest, v.stack = .ref r :: rest ∧ v'.memo = v.memo.push r := by
  simp only [VM.step, bind, Except.bind, pure, Except.pure] at h
  split at h
  · cases h
  · rename_i r hr
    obtain ⟨rest, hs⟩ := topRef_ok hr
    cases h
    exact ⟨rfl, rfl, r, rest, hs, rfl⟩

/-- **frame lemma.**  One opcode never shrinks the heap and rewrites no existing cell outside `targets v op`: nothing for
    most opcodes; the container under the items for `APPEND(S)`, `SETITEM(S)`, `ADDITEMS`; the instance and its attribute
    dict for `BUILD`. -/
theorem step_changes_only_targets {cfg : Cfg} {v v' : VM} {op : Op} (h : v.step cfg op = .ok v') :
    v.heap.size ≤ v'.heap.size ∧ ∀ i, i < v.heap.size → i ∉ targets v op → v'.heap[i]? = v.heap[i]? :=
  step_frame h

/-- `APPENDS` changes only the list under the MARK -/
theorem appends_frame {cfg : Cfg} {v v' : VM} (h : v.step cfg .appends = .ok v') {items : List Ref} {t : Ref} {rest : List Item}
    (hs : splitMark v.stack [] = some (items, .ref t :: rest)) (i : Nat) (hi : i < v.heap.size) (hne : i ≠ t) :
    v'.heap[i]? = v.heap[i]? :=
  (step_frame h).2 i hi (by simp [targets, hs, hne])

/-- `SETITEMS` changes only the dict under the MARK -/
theorem setitems_frame {cfg : Cfg} {v v' : VM} (h : v.step cfg .setitems = .ok v') {items : List Ref} {t : Ref} {rest : List Item}
    (hs : splitMark v.stack [] = some (items, .ref t :: rest)) (i : Nat) (hi : i < v.heap.size) (hne : i ≠ t) :
    v'.heap[i]? = v.heap[i]? :=
  (step_frame h).2 i hi (by simp [targets, hs, hne])

/-- `BUILD` pops the state, keeps the instance on the stack, leaves the memo alone and changes only the instance cell and
    its attribute dict -/
theorem build_frame {cfg : Cfg} {v v' : VM} (h : v.step cfg .build = .ok v') :
    (∀ i, i < v.heap.size → i ∉ buildTargets v → v'.heap[i]? = v.heap[i]?) ∧ v'.memo = v.memo ∧
    ∃ st inst rest, v.stack = .ref st :: .ref inst :: rest ∧ v'.stack = .ref inst :: rest := by
  have hb : v.build cfg = .ok v' := h
  exact ⟨(build_ok hb).1.2, (build_ok hb).2.1, (build_ok hb).2.2⟩

/-- the cell a value-creating opcode makes -/
def created : Op → Option Cell
  | .none => some ⟨.none, []⟩ | .newtrue => some ⟨.bool true, []⟩ | .newfalse => some ⟨.bool false, []⟩
  | .int z => some ⟨.int z, []⟩ | .float b => some ⟨.float b, []⟩ | .str s => some ⟨.str s, []⟩ | .bytes s => some ⟨.bytes s, []⟩
  | .emptyDict => some ⟨.dict, []⟩ | .emptyList => some ⟨.list, []⟩ | .emptyTuple => some ⟨.tuple, []⟩ | .emptySet => some ⟨.set, []⟩
  | _ => none

/-- **fresh references.**  A value-creating opcode always succeeds, pushes the first unused reference (no cell was there
    before), puts exactly the new cell there, and leaves every old cell and the memo alone. -/
theorem created_is_fresh (cfg : Cfg) (v : VM) (op : Op) (c : Cell) (hc : created op = some c) :
    ∃ v', v.step cfg op = .ok v' ∧ v'.stack = .ref v.heap.size :: v.stack ∧ v.heap[v.heap.size]? = none ∧
      v'.heap[v.heap.size]? = some c ∧ v'.memo = v.memo ∧ ∀ i, i < v.heap.size → v'.heap[i]? = v.heap[i]? := by
  refine ⟨v.alloc c, ?_, rfl, by simp, by simp [VM.alloc], rfl, fun i hi => (alloc_frame v c []).2 i hi (by simp)⟩
  cases op <;> simp [created] at hc <;> subst hc <;> rfl

/-! ### non-vacuity -/

/-- two instances of class `m.Seq` linked into a cycle (`a.wc = b`, `b.wc = a`) that share the string `"x"` under the
    attribute `name`; cells: 0,1 the class's name strings, 2 the class, 3 `()`, 4 = `a` (state 5), 7 = `b` (state 10) -/
def exCycle : Heap := #[⟨.str "m", []⟩, ⟨.str "Seq", []⟩, ⟨.global, [0, 1]⟩, ⟨.tuple, []⟩,
  ⟨.obj true true 0, [2, 3, 5]⟩, ⟨.dict, [6, 7, 8, 9]⟩, ⟨.str "wc", []⟩, ⟨.obj true true 0, [2, 3, 10]⟩, ⟨.str "name", []⟩,
  ⟨.str "x", []⟩, ⟨.dict, [6, 4, 8, 9]⟩]

/-- the cycle round-trips (evaluated by the kernel), hence — `roundtrip_of_check` — decodes to an isomorphic graph -/
example : roundtripB exCycle 4 = true := by decide +kernel
example : ∃ ops h' r', dump exCycle 4 = .ok ops ∧ run ops = .ok (h', r') ∧ canon h' r' = canon exCycle 4 ∧
    ∃ R, Iso exCycle 4 h' r' R := roundtrip_of_check (by decide +kernel)
/-- its canonical form has 10 cells: the shared string and the shared class occur once -/
example : (canon exCycle 4).map (·.cells.length) = some 10 := by decide +kernel
/-- breaking the sharing of `"x"` (b gets its own copy, cell 11) changes the canonical form … -/
def exUnshared : Heap := (exCycle.push ⟨.str "x", []⟩).setIfInBounds 10 ⟨.dict, [6, 4, 8, 11]⟩
example : canon exUnshared 4 ≠ canon exCycle 4 := by decide +kernel
/-- … and so does cutting the back link (`b.wc = None`, cell 11) -/
def exCut : Heap := (exCycle.push ⟨.none, []⟩).setIfInBounds 10 ⟨.dict, [6, 11, 8, 9]⟩
example : canon exCut 4 ≠ canon exCycle 4 := by decide +kernel
/-- but renumbering the cells does not (T1's hypothesis is satisfiable by two different heaps) -/
def exRenumbered : Heap := #[⟨.obj true true 0, [3, 4, 1]⟩, ⟨.dict, [5, 6, 7, 8]⟩, ⟨.str "Seq", []⟩, ⟨.global, [9, 2]⟩,
  ⟨.tuple, []⟩, ⟨.str "wc", []⟩, ⟨.obj true true 0, [3, 4, 10]⟩, ⟨.str "name", []⟩, ⟨.str "x", []⟩, ⟨.str "m", []⟩,
  ⟨.dict, [5, 0, 7, 8]⟩]
example : canon exRenumbered 0 = canon exCycle 4 := by decide +kernel
example : ∃ R, Iso exRenumbered 0 exCycle 4 R :=
  match hc : canon exCycle 4 with
  | some c => canon_iso (by rw [← hc]; decide) hc
  | none => absurd hc (by decide +kernel)

/-- a recursive tuple `t = ([t], "s", "s")` with a string that occurs twice: memo re-check, `POP`s and `BINGET` -/
def exRecTuple : Heap := #[⟨.tuple, [1, 2, 2]⟩, ⟨.list, [0]⟩, ⟨.str "s", []⟩]
example : (dump exRecTuple 0).toOption = some [.emptyList, .memoize, .get 0, .str "s", .memoize, .get 1, .tuple3, .memoize,
    .append, .get 1, .get 1, .pop, .pop, .pop, .get 2, .stop] := by decide +kernel
example : roundtripB exRecTuple 0 = true := by decide +kernel
/-- a list that contains itself and one shared inner list twice -/
def exList : Heap := #[⟨.list, [0, 1, 1, 2]⟩, ⟨.list, [2]⟩, ⟨.int 7, []⟩]
example : roundtripB exList 0 = true := by decide +kernel

/-- `roundtrip` applies to the cyclic examples: their heaps are `Supported` (decided by the kernel), so the universally
    quantified theorem — not an evaluation of the round trip — gives the conclusion; in particular for the two-cycle of
    instances `a.wc = b`, `b.wc = a` with a shared string -/
example : supportedB exCycle 4 = true := by decide +kernel
example : supportedB exRecTuple 0 = true := by decide +kernel
example : supportedB exList 0 = true := by decide +kernel
theorem exCycle_roundtrip : Roundtrip exCycle 4 := by
  have hd : (dump exCycle 4).toOption.isSome = true := by decide +kernel
  have hc : (canon exCycle 4).isSome = true := by decide +kernel
  cases hd' : dump exCycle 4 with
  | error e => rw [hd'] at hd; cases hd
  | ok ops =>
    cases hc' : canon exCycle 4 with
    | none => rw [hc'] at hc; cases hc
    | some c => exact roundtrip_of_supportedB (by decide +kernel) hd' hc'

/-- why a hypothesis is needed — (1) a dict whose two keys are different cells with the same text: the unpickler's
    `d[k] = v` merges them … -/
def exDupKeys : Heap := #[⟨.dict, [1, 3, 2, 3]⟩, ⟨.str "k", []⟩, ⟨.str "k", []⟩, ⟨.int 0, []⟩]
example : roundtripB exDupKeys 0 = false := by decide +kernel
example : supportedB exDupKeys 0 = false := by decide +kernel
/-- … (2) an instance whose state dict (cell 5) is also an element of the root list: `BUILD` copies the state into the
    instance's own attribute dict, so the decoded list element and the decoded instance no longer share one dict — as in
    Python, where `pickle.loads(pickle.dumps([x, x.__dict__]))` gives `[y, d]` with `d is not y.__dict__` -/
def exSharedState : Heap := #[⟨.str "m", []⟩, ⟨.str "C", []⟩, ⟨.global, [0, 1]⟩, ⟨.tuple, []⟩,
  ⟨.obj true true 0, [2, 3, 5]⟩, ⟨.dict, [6, 7]⟩, ⟨.str "a", []⟩, ⟨.int 1, []⟩, ⟨.list, [4, 5]⟩]
example : roundtripB exSharedState 8 = false := by decide +kernel
example : supportedB exSharedState 8 = false := by decide +kernel
theorem roundtripStatement_false : ¬ RoundtripStatement := by
  intro hR
  have hd : (dump exDupKeys 0).toOption.isSome = true := by decide +kernel
  cases hd' : dump exDupKeys 0 with
  | error e => rw [hd'] at hd; cases hd
  | ok ops =>
    have := (roundtripB_iff exDupKeys 0).mpr (hR exDupKeys 0 ops hd' (by decide +kernel))
    exact absurd this (by decide +kernel)

/-- T2 fragment: atoms and strings in an arbitrary heap -/
example : Roundtrip exCycle 3 := roundtrip_partial (c := ⟨.tuple, []⟩) (by decide +kernel) (Or.inl rfl)
example : Roundtrip exCycle 9 := roundtrip_partial (c := ⟨.str "x", []⟩) (by decide +kernel) (Or.inr (Or.inl ⟨"x", rfl⟩))

/-- T3: on a concrete machine state — memo `[5]`, stack `[MARK-frame: 1 above the list 0]` -/
def exVM : VM := { heap := #[⟨.list, []⟩, ⟨.int 1, []⟩, ⟨.str "k", []⟩], stack := [.ref 1, .mark, .ref 0], memo := #[2] }
example : (exVM.step {} (.get 0)).toOption.map (·.stack) = some [.ref 2, .ref 1, .mark, .ref 0] := by decide +kernel
example : (exVM.step {} .appends).toOption.map (·.heap) = some #[⟨.list, [1]⟩, ⟨.int 1, []⟩, ⟨.str "k", []⟩] := by decide +kernel
example : targets exVM .appends = [0] := by decide +kernel
example : (exVM.step {} .emptyDict).toOption.map (·.stack) = some [.ref 3, .ref 1, .mark, .ref 0] := by decide +kernel
/-- errors are explicit: `BINGET` of an unknown index, `APPENDS` without a MARK, `BUILD` on a class with `__setstate__` -/
example : (match exVM.step {} (.get 1) with | .error .memo => true | _ => false) = true := by decide +kernel
example : (match ({ exVM with stack := [.ref 1, .ref 0] } : VM).step {} .appends with | .error .noMark => true | _ => false) = true := by
  decide +kernel

end Pepper.C16Pickle.Props
