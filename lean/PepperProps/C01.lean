import PepperProofs.Comp
import PepperModel.Generated.Tables
/-!
# C01 — compiled PIL preserves each component's strands, structures and constraints

"For every component program the compiler accepts, the emitted .pil file denotes exactly the design the
source describes: the same named strands (length, dummy flag, and at every position the same underlying
domain nucleotide, in the same orientation, with the same allowed bases), the same named sequences and
super-sequences (those of non-zero length; the formats cannot express empty ones), the same structures
(strand order, nucleotide-level dot-paren target, optimisation flag) and the same kinetic reactions.
Nothing is added, dropped, reordered or re-oriented, whichever notation the source used."

Model: `PepperModel/Comp.lean` (`Comp.load` = `load_component` from the statement loop on: `clean_const`,
`SuperSequence.__init__`, `add_*`, `output_synthesis`), `PepperModel/Emit.lean` (`compStmts`: the emitted
PIL as the statement list a PIL reader obtains), `PepperModel/Pil.lean` (`Pil.load`, `Pil.denote`: what a
PIL document denotes), `PepperModel/Denote.lean` (`denoteComp`: what the source denotes, defined directly
on the AST).  Proofs: `PepperProofs/Comp*.lean`.

Hypotheses (both decidable, both necessary):
* `UserNamesOk src` — no sequence name the source defines or mentions has the reserved form `_Anon<digits>`,
  contains `*` or is empty (the PIL reader splits a trailing `*` off item names; the compiler would find its
  own anonymous sequences under a user name of the reserved form);
* `CodesOk tbl src` — every code letter written in a quoted region is a code of the reader's table (the
  compiler does not validate the alphabet of quoted regions, the PIL reader does).
The code table `tbl` is arbitrary: not even `tbl.lawful` is needed.

`DesignEquiv` is plain equality of all fields of a `Design` except `kinetics` (a PIL statement list carries no
kinetic constraint).  It is stronger than equality up to a renaming of anonymous domains: model and
specification number the anonymous regions of a statement identically, the wildcard region last.  The
kinetic reactions are compared with the kinetic lines of the emitted text (`Comp.emitPil`).
-/
namespace Pepper.C01
open Pepper.Comp Pepper.Denote Pepper.Generated

/-- C01, full strength.  For every component source the compile path accepts: reading the emitted PIL back
    succeeds; the specification accepts the source with the same final anonymous counter; the design the PIL
    denotes equals the design the source denotes in domains (names, templates), sequences and super-sequences
    of non-zero length (names, nucleotides), strands (names, dummy flags, nucleotides), structures (names,
    strand order, dot-paren target, optimisation parameter) and `equal` constraints (none), all in the same
    order; and the lines of the emitted text after the sequence / strand / structure lines are exactly the
    denoted kinetic reactions, in order. -/
theorem compile_preserves_design (tbl : CodeTable) (src : Comp.Src) (n : Nat) (pfx : String) (a : Nat)
    (st : Comp.St) (a' : Nat) (hload : Comp.load src n pfx a = .ok (st, a'))
    (hnames : UserNamesOk src = true) (hcodes : CodesOk tbl src = true) :
    ∃ spec o ports a'', Pil.load tbl (Emit.compStmts st) {} = .ok spec ∧
      Denote.denoteComp src pfx a = .ok (o, ports, a'') ∧ a'' = a' ∧
      DesignEquiv (Pil.denote spec) (o.design []) ∧
      (Comp.emitPil st).drop (Emit.compStmts st).length = o.kinetics.map renderKin := by
  obtain ⟨spec, o, ports, h1, h2, h3, h4⟩ := compile_preserves tbl src n pfx a st a' hload hnames hcodes
  exact ⟨spec, o, ports, a', h1, h2, rfl, h3, h4⟩

/-- what `DesignEquiv` says, field by field -/
theorem designEquiv_iff (d1 d2 : Design) :
    DesignEquiv d1 d2 ↔ d1.domains = d2.domains ∧ d1.seqs = d2.seqs ∧ d1.strands = d2.strands ∧
      d1.structs = d2.structs ∧ d1.equals = d2.equals := Iff.rfl

/-- the strands in particular: same names, dummy flags and nucleotides (domain, position, orientation), in
    the same order -/
theorem strands_preserved (tbl : CodeTable) (src : Comp.Src) (n : Nat) (pfx : String) (a : Nat)
    (st : Comp.St) (a' : Nat) (hload : Comp.load src n pfx a = .ok (st, a'))
    (hnames : UserNamesOk src = true) (hcodes : CodesOk tbl src = true) :
    ∃ spec o ports, Pil.load tbl (Emit.compStmts st) {} = .ok spec ∧
      Denote.denoteComp src pfx a = .ok (o, ports, a') ∧ (Pil.denote spec).strands = o.strands ∧
      (Pil.denote spec).structs = o.structs ∧ (Pil.denote spec).domains = o.domains := by
  obtain ⟨spec, o, ports, h1, h2, h3, _⟩ := compile_preserves tbl src n pfx a st a' hload hnames hcodes
  exact ⟨spec, o, ports, h1, h2, h3.2.2.1, h3.2.2.2.1, h3.1⟩

/-! ### the parts of the proof that are properties in their own right -/

/-- the table invariant (unique names; an entry's `base_seqs` is the concatenation of its items' views and its
    length their sum; definition before use) holds initially and is preserved by every accepted statement -/
theorem invariant_preserved {s : Comp.St} {a : Nat} {stmt : Comp.Stmt} {s' : Comp.St} {a' : Nat} (hw : WF s a)
    (hok : stmtNamesOk stmt = true) (h : Comp.addStmt s a stmt = .ok (s', a')) : WF s' a' ∧ a ≤ a' :=
  addStmt_WF hw hok h

/-- for tables satisfying the invariant the emitted PIL loads and denotes the design read off the tables:
    nothing is lost or reordered between the object model and the file -/
theorem emitted_pil_denotes_tables (tbl : CodeTable) {s : Comp.St} {a : Nat} (hw : WF s a)
    (hcodes : ∀ e ∈ s.seqs, e.const.all tbl.isCode = true) :
    ∃ spec, Pil.load tbl (Emit.compStmts s) {} = .ok spec ∧ Pil.denote spec = designOf s :=
  emit_sound tbl hw hcodes

/-- the reversed view of a sequence or super-sequence denotes the reverse complement -/
theorem reversed_view_is_rc (p : String) (e : Comp.SeqE) :
    cnucs p (Comp.basesOfView e true) = rc (cnucs p e.bases) := by
  rw [cnucs_basesOfView]; rfl

/-- reverse complement is an involution and reverses concatenation -/
theorem rc_involutive (l : List Nuc) : rc (rc l) = l := rc_rc l
theorem rc_concat (x y : List Nuc) : rc (x ++ y) = rc y ++ rc x := rc_append x y

/-! ### non-vacuity -/

/-- the example source satisfies the hypotheses (live PIL reader table) -/
example : UserNamesOk exampleSrc = true ∧ CodesOk pilTable exampleSrc = true := by decide +kernel

/-- the compile path accepts it; this is the emitted PIL (anonymous counter 5 ↦ 6) -/
example : (Comp.load exampleSrc 0 "c-" 5).toOption.map (fun r => (Emit.compStmts r.1, r.2)) =
    some ([.seq "c-a" "NNN".toList, .seq "c-b" "SSWW".toList, .seq "c-_Anon5" "RRY".toList,
           .sup "c-s" ["c-a", "c-_Anon5", "c-b*"],
           .strand "c-X" false ["c-s", "c-b", "c-_Anon5*", "c-a*"],
           .struct "c-T" (some "2.5nt") ["c-X"] "(((((((((())))))))))".toList], 6) := by
  decide +kernel

/-- the conclusion of `compile_preserves_design`, computed: the PIL read back denotes the source's design -/
example :
    (do let r ← (Comp.load exampleSrc 0 "c-" 5).toOption
        let spec ← (Pil.load pilTable (Emit.compStmts r.1) {}).toOption
        let d ← (Denote.denoteComp exampleSrc "c-" 5).toOption
        pure (decide (Pil.denote spec = { d.1.design [] with kinetics := [] }) &&
              decide ((Comp.emitPil r.1).drop (Emit.compStmts r.1).length = d.1.kinetics.map renderKin) &&
              decide (d.2.2 = r.2))) = some true := by
  decide +kernel

/-- and what it denotes: the strand `X = s domains(s*)` is `a _Anon5 b* b _Anon5* a*`, 20 nucleotides -/
example :
    ((Denote.denoteComp exampleSrc "c-" 5).toOption.map (fun d => d.1.strands.map (fun x => (x.1, x.2.1, x.2.2.length)))) =
      some [("c-X", false, 20)] := by decide +kernel
example :
    ((Denote.denoteComp exampleSrc "c-" 5).toOption.map (fun d => d.1.structs)) =
      some [⟨"c-T", ["c-X"], "(((((((((())))))))))".toList, .other "2.5"⟩] := by decide +kernel
/-- the hypotheses are needed: a reserved name is rejected by `UserNamesOk`, a foreign letter by `CodesOk` -/
example : UserNamesOk { exampleSrc with stmts := [.seq "_Anon3" [.nuc "3N".toList] none] } = false := by decide +kernel
example : CodesOk pilTable { exampleSrc with stmts := [.seq "a" [.nuc "3X".toList] none] } = false := by decide +kernel

end Pepper.C01
