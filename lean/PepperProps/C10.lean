import PepperProofs.CompConstraint
import PepperProofs.CompBuild
/-!
# C10 — wildcards and declared lengths resolve exactly

"In a sequence, super-sequence or strand with a declared length, a single '?' multiplier expands to
exactly the number of nucleotides that makes the total equal the declared length, all other parts keep
their written multiplicity and order, and the result is identical to writing that number explicitly.
More than one wildcard, a wildcard without a declared length, a negative remainder, or a declared
length that disagrees with the parts is rejected."

Model: `PepperModel/Constraint.lean` (`resolve` = `Sequence._get_length_const` on the parts a quoted region
parses to; `explicit w parts` = the same parts with `?` written as the number `w`) and
`PepperModel/Comp.lean` (`buildSuper` = `SuperSequence.__init__`/`Strand.__init__` on resolved items).
Proofs: `PepperProofs/CompConstraint.lean`, `PepperProofs/CompBuild.lean`.
-/
namespace Pepper.C10
open Pepper.Constraint Pepper.Comp

/-! ### 1. a single wildcard is exact -/

/-- with one wildcard and a declared length `L` not smaller than the fixed parts, the region resolves to
    length `L` with the wildcard expanded to the remainder `L - fixedSum parts`; writing that number
    explicitly instead of `?` resolves to the identical result; the long-form constraint has exactly `L`
    letters -/
theorem wildcard_exact (parts : List (Mult × Char)) (L : Nat) (h1 : wildCount parts = 1)
    (hle : fixedSum parts ≤ L) :
    resolve parts (some L) = .ok (L, expand (L - fixedSum parts) parts) ∧
    resolve (explicit (L - fixedSum parts) parts) (some L) = resolve parts (some L) ∧
    (expand (L - fixedSum parts) parts).length = L := by
  refine ⟨resolve_some_of_one h1 hle, ?_, ?_⟩
  · rw [resolve_some_of_one h1 hle]
    have hs : fixedSum (explicit (L - fixedSum parts) parts) = L := by
      rw [fixedSum_explicit, h1]; omega
    simp [resolve, wildCount_explicit, hs, expand_explicit]
  · rw [expand_length, h1]; omega

/-- the explicit form keeps every other part: same number of parts, each numbered part unchanged at its
    index, the wildcard part replaced by the number (same letter) -/
theorem explicit_keeps (w : Nat) (parts : List (Mult × Char)) :
    (explicit w parts).length = parts.length ∧
    (∀ (i : Nat) n c, parts[i]? = some (Mult.num n, c) → (explicit w parts)[i]? = some (Mult.num n, c)) ∧
    (∀ (i : Nat) c, parts[i]? = some (Mult.wild, c) → (explicit w parts)[i]? = some (Mult.num w, c)) := by
  refine ⟨length_explicit w parts, ?_, ?_⟩
  · intro i n c h; simp [explicit_getElem?, h]
  · intro i c h; simp [explicit_getElem?, h]

/-- the expansion is the parts in order: numbered parts with their multiplicity, the wildcard with `w` -/
theorem expand_in_order (w : Nat) (m : Mult) (c : Char) (r : List (Mult × Char)) :
    expand w ((m, c) :: r) = List.replicate (match m with | .num n => n | .wild => w) c ++ expand w r := by
  cases m <;> simp [expand]

/-! ### 2. rejections, and exactly these -/

/-- more than one wildcard is rejected whatever the declared length -/
theorem rejects_many (parts : List (Mult × Char)) (l : Option Nat) (h : wildCount parts ≥ 2) :
    resolve parts l = .error .tooManyWild := resolve_of_two h l

/-- a wildcard without a declared length is rejected -/
theorem rejects_no_length (parts : List (Mult × Char)) (h : wildCount parts = 1) :
    resolve parts none = .error .wildNoLength := resolve_none_of_one h

/-- a negative remainder is rejected -/
theorem rejects_short (parts : List (Mult × Char)) (L : Nat) (h : wildCount parts = 1)
    (hlt : L < fixedSum parts) : resolve parts (some L) = .error .tooShort := by
  simp [resolve, h, hlt]

/-- a declared length that disagrees with wildcard-free parts is rejected -/
theorem rejects_mismatch (parts : List (Mult × Char)) (L : Nat) (h : wildCount parts = 0)
    (hne : L ≠ fixedSum parts) : resolve parts (some L) = .error .mismatch := by
  simp [resolve, h, hne]

/-- acceptance, exactly: no wildcard and no or the matching declared length, or one wildcard and a
    declared length (any, including 0) not smaller than the fixed parts -/
theorem accepts_iff (parts : List (Mult × Char)) (l : Option Nat) :
    (∃ r, resolve parts l = .ok r) ↔
      (wildCount parts = 0 ∧ (l = none ∨ l = some (fixedSum parts))) ∨
      (wildCount parts = 1 ∧ ∃ L, l = some L ∧ fixedSum parts ≤ L) := by
  by_cases h2 : wildCount parts ≥ 2
  · rw [resolve_of_two h2]; simp; omega
  · by_cases h0 : wildCount parts = 0
    · cases l with
      | none => simp [resolve, h0]
      | some L =>
        by_cases hL : L = fixedSum parts
        · simp [resolve, h0, hL]
        · simp [resolve, h0, hL]
    · have h1 : wildCount parts = 1 := by omega
      cases l with
      | none => simp [resolve, h1]
      | some L =>
        by_cases hL : L < fixedSum parts
        · simp [resolve, h1, hL]
        · simp [resolve, h1, hL]; omega

/-! ### 3. super-sequences and strands

An item list with exactly one wildcard region is `pre ++ nuc w :: post` with `wildCount w = 1` and
`pre`, `post` wildcard-free (`wildFree`, i.e. `resolve p none` succeeds for each of their quoted
regions — `wildFree_iff_resolves`).  `lenSum` adds the lengths of the items, `refsFrom k` / `basesFrom k`
are the `seqs` / `base_seqs` the items contribute when anonymous regions are numbered from `k`. -/

/-- `wildFree` says: every other quoted region resolves without a declared length -/
theorem wildFree_iff_resolves (cs : List CItem) :
    wildFree cs = true ↔ ∀ p, CItem.nuc p ∈ cs → ∃ r, resolve p none = .ok r := wildFree_iff cs

/-- Lifted to super-sequences / strands.  With one wildcard region `w` at position `pre.length` and declared
    length `L`: the object is built iff the other items plus the fixed part of `w` fit into `L`; then its
    length is `L`, the wildcard region is an anonymous sequence of the remaining length inserted at the
    item's position (in `seqs` and at the matching place of `base_seqs`), created last (highest number);
    writing the number explicitly builds an object with the same length, the same counter afterwards, the
    same items up to the numbering of anonymous names — identical orientation/length/kind at every
    position, identical entries wherever the source item is a named object, the same long-form
    constraint for the region — stated by giving both results in closed form. -/
theorem buildSuper_wildcard (pre post : List CItem) (w : List (Mult × Char)) (anon L : Nat)
    (hpre : wildFree pre = true) (hw : wildCount w = 1) (hpost : wildFree post = true) :
    ((∃ b, buildSuper anon (pre ++ .nuc w :: post) (some L) = .ok b) ↔
        lenSum pre + lenSum post + fixedSum w ≤ L) ∧
    (lenSum pre + lenSum post + fixedSum w ≤ L →
      let rest := lenSum pre + lenSum post
      let x := L - rest - fixedSum w           -- what `?` stands for
      let m := nucCount pre
      let n := nucCount post
      ∃ b b', buildSuper anon (pre ++ .nuc w :: post) (some L) = .ok b ∧
        buildSuper anon (pre ++ .nuc (explicit x w) :: post) (some L) = .ok b' ∧
        b.len = L ∧ b'.len = L ∧ b.anon = b'.anon ∧
        b.items = refsFrom anon pre ++ ⟨anonName (anon + m + n), false, L - rest, false⟩ :: refsFrom (anon + m) post ∧
        b'.items = refsFrom anon pre ++ ⟨anonName (anon + m), false, L - rest, false⟩ :: refsFrom (anon + m + 1) post ∧
        b.bases = basesFrom anon pre ++ ⟨anonName (anon + m + n), false, L - rest⟩ :: basesFrom (anon + m) post ∧
        b'.bases = basesFrom anon pre ++ ⟨anonName (anon + m), false, L - rest⟩ :: basesFrom (anon + m + 1) post ∧
        b.items.map ItemRef.shape = b'.items.map ItemRef.shape ∧
        b.bases.map BaseRef.shape = b'.bases.map BaseRef.shape ∧
        (∀ (idx : Nat) i bs, (pre ++ .nuc w :: post)[idx]? = some (CItem.obj i bs) →
            b.items[idx]? = some i ∧ b'.items[idx]? = some i) ∧
        b.items[pre.length]? = some ⟨anonName (anon + m + n), false, L - rest, false⟩ ∧
        mkAnon (anon + m + n) (L - rest) (expand x w) ∈ b.newAnon ∧
        mkAnon (anon + m) (L - rest) (expand x w) ∈ b'.newAnon) := by
  constructor
  · rw [buildSuper_wild hpre hw hpost]
    by_cases h1 : L < lenSum pre + lenSum post
    · simp [h1]; omega
    · by_cases h2 : L - (lenSum pre + lenSum post) < fixedSum w
      · simp [h1, h2]; omega
      · simp [h1, h2]; omega
  · intro hle
    have h1 : ¬ L < lenSum pre + lenSum post := by omega
    have h2 : ¬ L - (lenSum pre + lenSum post) < fixedSum w := by omega
    have hx : wildFree (pre ++ .nuc (explicit (L - (lenSum pre + lenSum post) - fixedSum w) w) :: post) = true := by
      simp [wildFree, hpre, hpost, wildCount_explicit]
    have hlen : lenSum (pre ++ .nuc (explicit (L - (lenSum pre + lenSum post) - fixedSum w) w) :: post) = L := by
      simp [lenSum, fixedSum_explicit, hw]; omega
    have hfs : fixedSum (explicit (L - (lenSum pre + lenSum post) - fixedSum w) w) = L - (lenSum pre + lenSum post) := by
      rw [fixedSum_explicit, hw]; omega
    have hb := buildSuper_wild hpre hw hpost anon L
    simp only [h1, h2, if_false] at hb
    have hb' := buildSuper_wildFree hx anon (some L)
    simp only [hlen, or_true, if_true] at hb'
    refine ⟨_, _, hb, hb', ?_⟩
    · simp only [refsFrom_append, basesFrom_append, anonsFrom_append, refsFrom, basesFrom, anonsFrom,
        nucCount_append, nucCount, hfs, expand_explicit]
      refine ⟨trivial, trivial, by omega, trivial, ?_, trivial, ?_, ?_, ?_, ?_, ?_, ?_, ?_⟩
      · simp
      · simp
      · simp only [List.map_append, List.map_cons, ItemRef.shape]
        rw [refsFrom_shape (anon + nucCount pre) (anon + nucCount pre + 1) post]
      · simp only [List.map_append, List.map_cons, BaseRef.shape]
        rw [basesFrom_shape (anon + nucCount pre) (anon + nucCount pre + 1) post]
      · intro idx i bs h
        exact ⟨getElem?_obj_middle _ _ pre post (.nuc w) _ idx i bs h (fun _ _ => by simp),
               getElem?_obj_middle _ _ pre post (.nuc w) _ idx i bs h (fun _ _ => by simp)⟩
      · rw [List.getElem?_append_right (by simp)]; simp
      · simp
      · simp

/-- a wildcard region without a declared length is rejected for super-sequences and strands too -/
theorem buildSuper_rejects_no_length (pre post : List CItem) (w : List (Mult × Char)) (anon : Nat)
    (hpre : wildFree pre = true) (hw : wildCount w = 1) (hpost : wildFree post = true) :
    buildSuper anon (pre ++ .nuc w :: post) none = .error .wildNoLength :=
  buildSuper_wild_none hpre hw hpost anon

/-- without a wildcard a declared length must equal the sum of the item lengths -/
theorem buildSuper_declared (cs : List CItem) (anon L : Nat) (hf : wildFree cs = true) :
    ((∃ b, buildSuper anon cs (some L) = .ok b) ↔ L = lenSum cs) ∧
    (L ≠ lenSum cs → buildSuper anon cs (some L) = .error .lengthMismatch) := by
  rw [buildSuper_wildFree hf]
  by_cases h : L = lenSum cs
  · simp [h]
  · simp [h]

/-! ### 4. non-vacuity -/

/-- `"3N ?S 2W"` with declared length 9: the wildcard is 4 -/
example : parseQuoted "3N ?S 2W".toList = [(Mult.num 3, 'N'), (Mult.wild, 'S'), (Mult.num 2, 'W')] := by decide +kernel
example : resolve [(Mult.num 3, 'N'), (Mult.wild, 'S'), (Mult.num 2, 'W')] (some 9) = .ok (9, "NNNSSSSWW".toList) := by decide
example : resolve (explicit 4 [(Mult.num 3, 'N'), (Mult.wild, 'S'), (Mult.num 2, 'W')]) (some 9) = .ok (9, "NNNSSSSWW".toList) := by
  decide
/-- the hypotheses of `wildcard_exact` hold for it; declared length equal to the fixed parts gives `?` = 0 -/
example : wildCount [(Mult.num 3, 'N'), (Mult.wild, 'S'), (Mult.num 2, 'W')] = 1 ∧ fixedSum [(Mult.num 3, 'N'), (Mult.wild, 'S'), (Mult.num 2, 'W')] ≤ 9 := by
  decide
example : resolve [(Mult.num 3, 'N'), (Mult.wild, 'S'), (Mult.num 2, 'W')] (some 5) = .ok (5, "NNNWW".toList) := by decide
/-- rejections -/
example : resolve [(Mult.wild, 'N'), (Mult.wild, 'S')] (some 9) = .error .tooManyWild := by decide
example : resolve [(Mult.num 3, 'N'), (Mult.wild, 'S')] none = .error .wildNoLength := by decide
example : resolve [(Mult.num 3, 'N'), (Mult.wild, 'S')] (some 2) = .error .tooShort := by decide
example : resolve [(Mult.num 3, 'N'), (Mult.num 1, 'S')] (some 5) = .error .mismatch := by decide
example : resolve [(Mult.wild, 'N')] (some 0) = .ok (0, []) := by decide
/-- a strand `a "2N ?S" b*` of declared length 12 with `a`, `b` of lengths 4 and 3: the region gets 5
    nucleotides (2 N + 3 S) and is inserted between `a` and `b*` -/
example :
    (buildSuper 7 [CItem.obj ⟨"a", false, 4, false⟩ [⟨"a", false, 4⟩], CItem.nuc [(Mult.num 2, 'N'), (Mult.wild, 'S')],
                   CItem.obj ⟨"b", true, 3, false⟩ [⟨"b", true, 3⟩]] (some 12)).toOption.map (·.items)
    = some [⟨"a", false, 4, false⟩, ⟨"_Anon7", false, 5, false⟩, ⟨"b", true, 3, false⟩] := by
  decide +kernel
example :
    (buildSuper 7 [CItem.obj ⟨"a", false, 4, false⟩ [⟨"a", false, 4⟩], CItem.nuc [(Mult.num 2, 'N'), (Mult.wild, 'S')],
                   CItem.obj ⟨"b", true, 3, false⟩ [⟨"b", true, 3⟩]] (some 12)).toOption.map (·.bases)
    = some [⟨"a", false, 4⟩, ⟨"_Anon7", false, 5⟩, ⟨"b", true, 3⟩] := by
  decide +kernel
example :
    (buildSuper 7 [CItem.obj ⟨"a", false, 4, false⟩ [⟨"a", false, 4⟩], CItem.nuc [(Mult.num 2, 'N'), (Mult.wild, 'S')],
                   CItem.obj ⟨"b", true, 3, false⟩ [⟨"b", true, 3⟩]] (some 12)).toOption.map
      (fun b => (b.len, b.newAnon.map (·.const), b.anon))
    = some (12, ["NNSSS".toList], 8) := by
  decide +kernel
/-- too short: the other items and the fixed part need 9 -/
example :
    (buildSuper 7 [CItem.obj ⟨"a", false, 4, false⟩ [⟨"a", false, 4⟩], CItem.nuc [(Mult.num 2, 'N'), (Mult.wild, 'S')],
                   CItem.obj ⟨"b", true, 3, false⟩ [⟨"b", true, 3⟩]] (some 8)).toOption.map (·.len) = none := by
  decide +kernel
example : wildFree [CItem.obj ⟨"a", false, 4, false⟩ [⟨"a", false, 4⟩]] = true ∧
    wildFree [CItem.obj ⟨"b", true, 3, false⟩ [⟨"b", true, 3⟩]] = true := by decide

end Pepper.C10
