import PepperModel.Generated.Tables
import PepperProofs.EndToEndText
import PepperProps.C06
import PepperProps.ParsePil
/-!
# C06, Part 3 — end to end at the level of the `.mfe` TEXT

(A separate file because `PepperProps/ParsePil.lean`, whose `names_of_compile` is used here, imports `C06.lean`.)

`C06.end_to_end` ends with `Finish.apply … (mfeDesign …) = .ok out`: `finish` applied to the LIST of records.  The real
`finish` reads the `.mfe` FILE.  `C06.text_level_partial` bridges the two GIVEN that the records are readable by the
`.mfe` reader (`Finish.wfRec`: header number over digits, name over `alphanums+"_-*"`, a NON-EMPTY sequence over
`ATUCG+NRYWSMKBDHV`, valid numeric fields, non-empty structure lines over `.()+`).  This file discharges that
hypothesis for compiled programs:

* `readable_condition` — the exact, decidable condition on a loaded specification (`specReadable`): every sequence and
  structure name is non-empty over `[A-Za-z0-9_-]`, NO sequence and NO strand has length 0, every structure has a
  strand and a non-empty text over `.()+`.  The letters need no hypothesis: designed positions carry a base `ACGT`
  (`asg : Var → Base`), undesigned sequences keep their template (`spellT`), whose codes are in the reader's alphabet.
  `zero_length_unreadable`: the zero-length clause is necessary.
* `spec_readable_of_compile` (+ `_component`) — it HOLDS for the specification a compiled program loads to, given the
  names predicate (`instNamesOk` / `compNamesOk`).  Zero lengths: the compiler does not write a zero-length sequence
  into the PIL at all (`Emit.compStmts` filters `len != 0`, mirroring `compiler.py`; so it has no `.mfe` record, and
  `finish` writes it as the empty string without consulting the design), it refuses zero-length strands
  ("Strand … was defined with length 0") and zero-length signals ("Dummy signals are not allowed"), and a
  super-sequence / strand of non-zero length keeps a non-dummy item.  (The real `Convert.output` would divide by zero on
  a zero-length sequence, and the reader's `Word(…)` cannot match an empty field: observed on the real code.)
* `mfeRecs_readable` (+ `_component`) — hence every record is `wfRec`, for any valid float token in the GC field.
* `end_to_end_text`, `end_to_end_text_component`, `end_to_end_text_struct` — `C06.end_to_end*` with the names hypotheses
  on the SOURCES (`bundleCharsOk`, `charsOk pfx` / `srcCharsOk`, as `ParsePil.Props.names_of_compile` takes them) and
  the conclusion at the text level: `Finish.finishText` of the rendered records succeeds with the same `out`.
  (`end_to_end_text_struct` no longer needs "every strand is non-empty": `lengths_nonzero_of_compile`.)
* `end_to_end_text_tokens` — the same with ONE FLOAT TOKEN PER RECORD (the real file carries a different GC-content in
  every record).

In this file the GC-content field is an ARBITRARY token accepted by the reader's float alphabet (`[0-9.-]`, valid for
`float()`), because the model's `Mfe.output` writes the opaque token `GC` there (`mfeLines`).  That Python's
`"%f" % gc_content` prints such a token — and which one — is `PepperProps/C06Gc.lean` (`gcToken_shape`, `text_level`,
`end_to_end_text_gc`: the same theorems for the text `Mfe.outputGc` writes, no token left free).
-/
namespace Pepper.C06.Text
open Pepper Pepper.Pil Pepper.ConstraintGen Pepper.LinkSpec Pepper.EndToEnd Pepper.EndToEndText

/-! ### the condition -/

/-- **The exact condition, on a loaded specification.**  If the (decidable) predicate `specReadable spec` holds — every
    sequence name and structure name is non-empty over `[A-Za-z0-9_-]`, no sequence and no strand has length 0, every
    structure has a strand and a non-empty text over `.()+` — then for EVERY assignment of bases and every valid float
    token `g`, every record `Convert.output` writes is one the `.mfe` reader reads back (`wfRec` over the reader's
    sequence alphabet `alphaMfeSeq`): header numbers are digit strings; a sequence name, plain or starred, is over the
    reader's `alphanums+"_-*"`; a structure's sequence is non-empty over `ACGT+`; a sequence's letters are bases on
    designed positions and template codes elsewhere, all in the reader's alphabet, and there are `len ≠ 0` of them;
    the dummy structures are `len` dots. -/
theorem readable_condition {stmts : List Stmt} {spec : Spec}
    (hload : Pil.load Generated.nupackTable stmts {} = .ok spec) (hr : specReadable spec = true)
    (asg : Var → Base) {g : List Char}
    (hg1 : Finish.okWord Finish.isNumChar g = true) (hg2 : Finish.validFloat g = true) :
    ∀ x ∈ mfeRecsGC Generated.pilTable spec asg g, Finish.wfRec Generated.alphaMfeSeq x = true := by
  rw [mfeRecsGC_eq]
  exact recs_readable (load_wf hload) (load_specCodes hload) (specReadable_iff.1 hr) asg (fun _ => ⟨hg1, hg2⟩)

/-- **The zero-length clause is necessary**: a specification with a sequence of length 0 has an unreadable record (its
    sequence field is empty; pyparsing's `Word` needs one character — and the real `Convert.output` raises
    `ZeroDivisionError` computing its GC-content). -/
theorem zero_length_unreadable {stmts : List Stmt} {spec : Spec}
    (hload : Pil.load Generated.nupackTable stmts {} = .ok spec) {o : SeqObj} (ho : o ∈ spec.seqs) (hz : o.len = 0)
    (asg : Var → Base) (g : List Char) :
    ∃ x ∈ mfeRecsGC Generated.pilTable spec asg g, Finish.wfRec Generated.alphaMfeSeq x = false :=
  unreadable_of_zero (load_wf hload) ho hz _ asg g

/-! ### it holds for compiled programs -/

/-- **The specification of a compiled tree is readable.**  For every instance tree `load_file` returns (bundle
    hypotheses of C02) whose emitted names are over `[A-Za-z0-9_-]` (`instNamesOk`), the specification its PIL loads to
    satisfies `specReadable`.  In particular NO sequence and NO strand of the specification has length 0: zero-length
    sequences are not written into the PIL, zero-length strands and zero-length signals are refused by the compiler. -/
theorem spec_readable_of_compile {b : Sys.Bundle} {fuel : Nat} {base : String} {args : Nat} {argKey pfx path : String}
    {includes : List String} {anon : Nat} {inst : Sys.Inst} {a' : Nat}
    (hfile : Sys.loadFile b fuel base args argKey pfx path includes anon = .ok (inst, a'))
    (hb : SysProofs.bundleOk Generated.nupackTable b = true) (hchars : ParsePil.instNamesOk inst = true)
    {spec : Spec} (hload : Pil.load Generated.nupackTable (Emit.instStmts inst) {} = .ok spec) :
    specReadable spec = true := by
  have hL := LoadInv.loadFile_loaded (P := fun c => LoadInv.StmtNamesOk c = true) (Q := fun _ => True)
    (fun k c hl => LoadInv.stmtNamesOk_of_user (SysProofs.bundleOk_comp hb hl).1) (fun _ _ _ => trivial)
    _ _ _ _ _ _ _ _ _ _ hfile
  exact specReadable_iff.2 (specReadable_of_tree hL hchars hload)

/-- the same for one component (`compNamesOk`) -/
theorem spec_readable_of_compile_component {src : Comp.Src} {n : Nat} {pfx : String} {anon : Nat} {st : Comp.St}
    {a' : Nat} (hcomp : Comp.load src n pfx anon = .ok (st, a')) (hnames : Comp.UserNamesOk src = true)
    (hchars : ParsePil.compNamesOk st = true)
    {spec : Spec} (hload : Pil.load Generated.nupackTable (Emit.compStmts st) {} = .ok spec) :
    specReadable spec = true := by
  have hL : LoadInv.Loaded (fun c => LoadInv.StmtNamesOk c = true) (fun _ => True) pfx (.comp st) :=
    LoadInv.Loaded.comp (LoadInv.stmtNamesOk_of_user hnames) hcomp
  have hload' : Pil.load Generated.nupackTable (Emit.instStmts (.comp st)) {} = .ok spec := by
    rw [SysProofs.instStmts_comp]; exact hload
  exact specReadable_iff.2 (specReadable_of_tree hL (by simpa [ParsePil.instNamesOk] using hchars) hload')

/-- **(1) The records of a compiled tree are readable.**  For the specification a compiled tree loads to (bundle
    hypotheses of C02, names over `[A-Za-z0-9_-]`: `instNamesOk`), EVERY assignment of bases to the domain positions
    and every valid float token `g`: every record of the `.mfe` file (`mfeRecs`, with `g` in the GC-content field)
    satisfies `wfRec alphaMfeSeq` — this is the hypothesis `hwf` of `C06.text_level_partial`. -/
theorem mfeRecs_readable {b : Sys.Bundle} {fuel : Nat} {base : String} {args : Nat} {argKey pfx path : String}
    {includes : List String} {anon : Nat} {inst : Sys.Inst} {a' : Nat}
    (hfile : Sys.loadFile b fuel base args argKey pfx path includes anon = .ok (inst, a'))
    (hb : SysProofs.bundleOk Generated.nupackTable b = true) (hchars : ParsePil.instNamesOk inst = true)
    {spec : Spec} (hload : Pil.load Generated.nupackTable (Emit.instStmts inst) {} = .ok spec)
    (asg : Var → Base) {g : List Char}
    (hg1 : Finish.okWord Finish.isNumChar g = true) (hg2 : Finish.validFloat g = true) :
    ∀ x ∈ mfeRecsGC Generated.pilTable spec asg g, Finish.wfRec Generated.alphaMfeSeq x = true :=
  readable_condition hload (spec_readable_of_compile hfile hb hchars hload) asg hg1 hg2

/-- **(1), one component** (`compNamesOk`) -/
theorem mfeRecs_readable_component {src : Comp.Src} {n : Nat} {pfx : String} {anon : Nat} {st : Comp.St} {a' : Nat}
    (hcomp : Comp.load src n pfx anon = .ok (st, a')) (hnames : Comp.UserNamesOk src = true)
    (hchars : ParsePil.compNamesOk st = true)
    {spec : Spec} (hload : Pil.load Generated.nupackTable (Emit.compStmts st) {} = .ok spec)
    (asg : Var → Base) {g : List Char}
    (hg1 : Finish.okWord Finish.isNumChar g = true) (hg2 : Finish.validFloat g = true) :
    ∀ x ∈ mfeRecsGC Generated.pilTable spec asg g, Finish.wfRec Generated.alphaMfeSeq x = true :=
  readable_condition hload (spec_readable_of_compile_component hcomp hnames hchars hload) asg hg1 hg2

/-! ### the composition, at the text level -/

/-- **(2) C06, end to end, at the level of the `.mfe` TEXT (systems to any depth; strand layout).**  Hypotheses of
    `C06.end_to_end`, plus the decidable character predicates on the SOURCES: every name a component source declares and
    every instance / signal name of a system source is non-empty over `[A-Za-z0-9_-]` (`bundleCharsOk`), the prefix is
    over that alphabet (`charsOk`).  Conclusion of `C06.end_to_end` with the finish step at the text level: for EVERY
    token `gc` over the reader's float alphabet that `float()` accepts, finishing the saved tree against the rendered
    TEXT of the records `output` writes — `gc` in the GC-content field — succeeds with `out`
    (`Finish.finishText`: `nupack_out_grammar.document` + `read_design` + `apply_design`); and `out` satisfies the source. -/
theorem end_to_end_text {b : Sys.Bundle} {fuel : Nat} {base : String} {args : Nat} {argKey pfx path : String}
    {includes : List String} {anon : Nat} {inst : Sys.Inst} {a' : Nat}
    (hfile : Sys.loadFile b fuel base args argKey pfx path includes anon = .ok (inst, a'))
    (hb : SysProofs.bundleOk Generated.nupackTable b = true)
    (hchars : ParsePil.bundleCharsOk b = true) (hpfx : ParsePil.charsOk pfx = true)
    {spec : Spec} (hload : Pil.load Generated.nupackTable (Emit.instStmts inst) {} = .ok spec)
    (hn : MfeNamesDistinct spec) {a : Arrays} (ha : getConstraints .strand spec = .ok a) {nts : List Char}
    (hg : ArraysGood a nts) :
    ∃ (d : Design) (ports : List (List Nuc × Bool)) (asg : Var → Base) (assigned : Mfe.Assigned) (out : Finish.Out),
      Denote.denoteFile b fuel base args argKey pfx path includes anon = .ok (d, ports, a') ∧
      Mfe.processResults Generated.pilTable spec (startOf .strand spec) nts = .ok (assigned, strandSeqs spec asg) ∧
      Mfe.output Generated.pilTable spec assigned (strandSeqs spec asg) = some (mfeLines Generated.pilTable spec asg) ∧
      (∀ gc : List Char, Finish.okWord Finish.isNumChar gc = true → Finish.validFloat gc = true →
        Finish.finishText Generated.dnaTable Generated.alphaMfeSeq inst
          (Finish.render (mfeRecsGC Generated.pilTable spec asg gc) "0.000000".toList) = .ok out) ∧
      Sat Generated.pilTable d asg ∧ Entries Generated.pilTable d asg out ∧ SatSrc Generated.pilTable d out ∧
      out.seqs.map (·.1) = (Finish.compsOf 64 inst).flatMap (fun s => s.seqs.map (fun e => s.pfx ++ e.name)) ∧
      out.strands.map (·.1) = (Finish.compsOf 64 inst).flatMap (fun s => s.strands.map (fun e => s.pfx ++ e.name)) ∧
      out.structs.map (·.1) = (Finish.compsOf 64 inst).flatMap (fun s => s.structs.map (fun e => s.pfx ++ e.name)) ∧
      (out.strands.filter (fun x => !x.2.1)).map (·.1) =
        (Finish.compsOf 64 inst).flatMap (fun s => (s.strands.filter (fun e => !e.dummy)).map (fun e => s.pfx ++ e.name)) := by
  obtain ⟨d, ports, asg, assigned, out, hden, hpr, hout, hap, hsat, hent, h1, h2, h3, h4⟩ :=
    Pepper.C06.end_to_end hfile hb hload hn ha hg
  have hnames := ParsePil.Props.names_of_compile.2 hfile hb hchars hpfx
  refine ⟨d, ports, asg, assigned, out, hden, hpr, hout, ?_, hsat, hent, ⟨asg, hsat, hent⟩, h1, h2, h3, h4⟩
  intro gc hg1 hg2
  exact (Pepper.C06.text_level_partial hg1 hg2 (mfeRecs_readable hfile hb hnames hload asg hg1 hg2) inst out).2 hap

/-- **(2), one float token per record.**  The real file carries a different GC-content in every record: the same
    conclusion for the text in which the `i`-th record (in file order: structures, then each sequence followed by its
    starred view) carries the token `gc i`, for ANY family of valid float tokens. -/
theorem end_to_end_text_tokens {b : Sys.Bundle} {fuel : Nat} {base : String} {args : Nat} {argKey pfx path : String}
    {includes : List String} {anon : Nat} {inst : Sys.Inst} {a' : Nat}
    (hfile : Sys.loadFile b fuel base args argKey pfx path includes anon = .ok (inst, a'))
    (hb : SysProofs.bundleOk Generated.nupackTable b = true)
    (hchars : ParsePil.bundleCharsOk b = true) (hpfx : ParsePil.charsOk pfx = true)
    {spec : Spec} (hload : Pil.load Generated.nupackTable (Emit.instStmts inst) {} = .ok spec)
    (hn : MfeNamesDistinct spec) {a : Arrays} (ha : getConstraints .strand spec = .ok a) {nts : List Char}
    (hg : ArraysGood a nts) :
    ∃ (d : Design) (ports : List (List Nuc × Bool)) (asg : Var → Base) (assigned : Mfe.Assigned) (out : Finish.Out),
      Denote.denoteFile b fuel base args argKey pfx path includes anon = .ok (d, ports, a') ∧
      Mfe.processResults Generated.pilTable spec (startOf .strand spec) nts = .ok (assigned, strandSeqs spec asg) ∧
      Mfe.output Generated.pilTable spec assigned (strandSeqs spec asg) = some (mfeLines Generated.pilTable spec asg) ∧
      (∀ gc : Nat → List Char,
        (∀ i, Finish.okWord Finish.isNumChar (gc i) = true ∧ Finish.validFloat (gc i) = true) →
        Finish.finishText Generated.dnaTable Generated.alphaMfeSeq inst
          (Finish.render (mfeRecsTok Generated.pilTable spec asg gc) "0.000000".toList) = .ok out) ∧
      Sat Generated.pilTable d asg ∧ Entries Generated.pilTable d asg out ∧ SatSrc Generated.pilTable d out := by
  obtain ⟨d, ports, asg, assigned, out, hden, hpr, hout, hap, hsat, hent, _⟩ :=
    Pepper.C06.end_to_end hfile hb hload hn ha hg
  have hnames := ParsePil.Props.names_of_compile.2 hfile hb hchars hpfx
  have hr := specReadable_iff.1 (spec_readable_of_compile hfile hb hnames hload)
  refine ⟨d, ports, asg, assigned, out, hden, hpr, hout, ?_, hsat, hent, ⟨asg, hsat, hent⟩⟩
  intro gc hgc
  exact (finish_text_tokens (load_wf hload) (load_specCodes hload) hr asg hgc inst out).2 hap

/-- **(2), one component (strand layout)**: `C06.end_to_end_component` at the text level; the names hypotheses are
    `charsOk pfx` and `srcCharsOk src` (every name the source declares is non-empty over `[A-Za-z0-9_-]`). -/
theorem end_to_end_text_component {src : Comp.Src} {n : Nat} {pfx : String} {anon : Nat} {st : Comp.St} {a' : Nat}
    (hcomp : Comp.load src n pfx anon = .ok (st, a'))
    (hnames : Comp.UserNamesOk src = true) (hcodes : Comp.CodesOk Generated.nupackTable src = true)
    (hpfx : ParsePil.charsOk pfx = true) (hsrc : ParsePil.srcCharsOk src = true)
    {spec : Spec} (hload : Pil.load Generated.nupackTable (Emit.compStmts st) {} = .ok spec)
    (hn : MfeNamesDistinct spec) {a : Arrays} (ha : getConstraints .strand spec = .ok a) {nts : List Char}
    (hg : ArraysGood a nts) :
    ∃ (o : Denote.Out) (ports : List (List Nuc × Bool)) (asg : Var → Base) (assigned : Mfe.Assigned) (out : Finish.Out),
      Denote.denoteComp src pfx anon = .ok (o, ports, a') ∧
      Mfe.processResults Generated.pilTable spec (startOf .strand spec) nts = .ok (assigned, strandSeqs spec asg) ∧
      Mfe.output Generated.pilTable spec assigned (strandSeqs spec asg) = some (mfeLines Generated.pilTable spec asg) ∧
      (∀ gc : List Char, Finish.okWord Finish.isNumChar gc = true → Finish.validFloat gc = true →
        Finish.finishText Generated.dnaTable Generated.alphaMfeSeq (.comp st)
          (Finish.render (mfeRecsGC Generated.pilTable spec asg gc) "0.000000".toList) = .ok out) ∧
      Sat Generated.pilTable (o.design []) asg ∧ Entries Generated.pilTable (o.design []) asg out ∧
      SatSrc Generated.pilTable (o.design []) out := by
  obtain ⟨o, ports, asg, assigned, out, hden, hpr, hout, hap, hsat, hent, hss⟩ :=
    Pepper.C06.end_to_end_component hcomp hnames hcodes hload hn ha hg
  have hchars := ParsePil.Props.names_of_compile.1 hcomp hnames hpfx hsrc
  refine ⟨o, ports, asg, assigned, out, hden, hpr, hout, ?_, hsat, hent, hss⟩
  intro gc hg1 hg2
  exact (Pepper.C06.text_level_partial hg1 hg2
    (mfeRecs_readable_component hcomp hnames hchars hload asg hg1 hg2) (.comp st) out).2 hap

/-- the strand clause (and the sequence clause) of `specReadable`, on their own: in the specification of a compiled
    tree no sequence and no strand has length 0 -/
theorem lengths_nonzero_of_compile {b : Sys.Bundle} {fuel : Nat} {base : String} {args : Nat}
    {argKey pfx path : String} {includes : List String} {anon : Nat} {inst : Sys.Inst} {a' : Nat}
    (hfile : Sys.loadFile b fuel base args argKey pfx path includes anon = .ok (inst, a'))
    (hb : SysProofs.bundleOk Generated.nupackTable b = true) (hchars : ParsePil.instNamesOk inst = true)
    {spec : Spec} (hload : Pil.load Generated.nupackTable (Emit.instStmts inst) {} = .ok spec) :
    (∀ o ∈ spec.seqs, o.len ≠ 0) ∧ (∀ o ∈ spec.strands, o.len ≠ 0) := by
  have hr := specReadable_iff.1 (spec_readable_of_compile hfile hb hchars hload)
  exact ⟨fun o ho => (hr.seqs o ho).2, hr.strands⟩

/-- **(2), structure layout** (`--struct-orient`): `C06.end_to_end_struct` at the text level.  Its hypothesis "every
    strand is non-empty" is no longer needed: it is the strand clause of `specReadable` (`lengths_nonzero_of_compile`);
    `Placed spec` (every strand occurs in some structure) stays. -/
theorem end_to_end_text_struct {b : Sys.Bundle} {fuel : Nat} {base : String} {args : Nat} {argKey pfx path : String}
    {includes : List String} {anon : Nat} {inst : Sys.Inst} {a' : Nat}
    (hfile : Sys.loadFile b fuel base args argKey pfx path includes anon = .ok (inst, a'))
    (hb : SysProofs.bundleOk Generated.nupackTable b = true)
    (hchars : ParsePil.bundleCharsOk b = true) (hpfx : ParsePil.charsOk pfx = true)
    {spec : Spec} (hload : Pil.load Generated.nupackTable (Emit.instStmts inst) {} = .ok spec)
    (hp : Placed spec)
    (hn : MfeNamesDistinct spec) {a : Arrays} (ha : getConstraints .struct spec = .ok a) {nts : List Char}
    (hg : ArraysGood a nts) :
    ∃ (d : Design) (ports : List (List Nuc × Bool)) (asg : Var → Base) (assigned : Mfe.Assigned) (out : Finish.Out),
      Denote.denoteFile b fuel base args argKey pfx path includes anon = .ok (d, ports, a') ∧
      Mfe.processResults Generated.pilTable spec (startOf .struct spec) nts = .ok (assigned, strandSeqs spec asg) ∧
      Mfe.output Generated.pilTable spec assigned (strandSeqs spec asg) = some (mfeLines Generated.pilTable spec asg) ∧
      (∀ gc : List Char, Finish.okWord Finish.isNumChar gc = true → Finish.validFloat gc = true →
        Finish.finishText Generated.dnaTable Generated.alphaMfeSeq inst
          (Finish.render (mfeRecsGC Generated.pilTable spec asg gc) "0.000000".toList) = .ok out) ∧
      Sat Generated.pilTable d asg ∧ Entries Generated.pilTable d asg out ∧ SatSrc Generated.pilTable d out := by
  have hnames := ParsePil.Props.names_of_compile.2 hfile hb hchars hpfx
  have hne := (lengths_nonzero_of_compile hfile hb hnames hload).2
  obtain ⟨d, ports, asg, assigned, out, hden, hpr, hout, hap, hsat, hent, hss⟩ :=
    Pepper.C06.end_to_end_struct hfile hb hload hp hne hn ha hg
  refine ⟨d, ports, asg, assigned, out, hden, hpr, hout, ?_, hsat, hent, hss⟩
  intro gc hg1 hg2
  exact (Pepper.C06.text_level_partial hg1 hg2 (mfeRecs_readable hfile hb hnames hload asg hg1 hg2) inst out).2 hap

/-! ### non-vacuity: the duplex of `C06.lean`, through the text -/

open Pepper.C06

/-- the source predicates of the duplex hold -/
theorem dup_chars : ParsePil.srcCharsOk dupSrc = true ∧ ParsePil.charsOk "d-" = true := by decide +kernel

/-- the condition holds for the specification of the duplex (evaluated), as `spec_readable_of_compile_component` says -/
example : specReadable dupSpec = true := by decide +kernel

/-- the theorem applies to the duplex with the token `0.500000`: finishing the TEXT succeeds and the finished output
    satisfies the source -/
example : ∃ (o : Denote.Out) (ports : List (List Nuc × Bool)) (asg : Var → Base) (out : Finish.Out),
    Denote.denoteComp dupSrc "d-" 0 = .ok (o, ports, 0) ∧
    Finish.finishText Generated.dnaTable Generated.alphaMfeSeq (.comp dupSt)
      (Finish.render (mfeRecsGC Generated.pilTable dupSpec asg "0.500000".toList) "0.000000".toList) = .ok out ∧
    SatSrc Generated.pilTable (o.design []) out := by
  obtain ⟨o, ports, asg, _, out, h1, _, _, h4, _, _, h7⟩ :=
    end_to_end_text_component dup_load dup_hyps.1 dup_hyps.2 dup_chars.2 dup_chars.1 dup_spec dup_distinct
      dup_arrays dup_good
  exact ⟨o, ports, asg, out, h1, h4 _ (by decide) (by decide), h7⟩

/-- the assignment that reads `dupNts`: `a ↦ A, C, G` -/
def dupAsg : Var → Base := fun v => match v.idx with | 0 => .A | 1 => .C | _ => .G

/-- the text of the theorem for that assignment, evaluated: with the GC-contents the real writer prints
    (`(count C + count G) / length`: 4/6 for the structure, 2/3 for `a`, the same variable again for `a*`) it is, byte for
    byte, the file `Convert.output(findmfe=False)` writes for the duplex -/
example : Finish.render (mfeRecsGC Generated.pilTable dupSpec dupAsg "0.666667".toList) "0.000000".toList =
    ("0:d-D\nACG+CGT 0.000000 0.666667 0\n(((+)))\n(((+)))\n" ++
     "1:d-a\nACG 0.000000 0.666667 0\n...\n...\n" ++
     "0:d-a*\nCGT 0.000000 0.666667 0\n...\n...\n" ++
     "Total n(s*) = 0.000000").toList := by decide +kernel

/-- … and finishing that text, evaluated -/
example : Finish.finishText Generated.dnaTable Generated.alphaMfeSeq (.comp dupSt)
    (Finish.render (mfeRecsGC Generated.pilTable dupSpec dupAsg "0.666667".toList) "0.000000".toList) =
    .ok ⟨[("d-a", "ACG".toList)], [("d-A", false, "ACG".toList), ("d-B", false, "CGT".toList)],
         [("d-D", "ACG+CGT".toList)]⟩ := by decide +kernel

/-- one token per record: the `i`-th record carries its own float -/
example : Finish.render (mfeRecsTok Generated.pilTable dupSpec dupAsg
      (fun i => match i with | 0 => "0.666667".toList | 1 => "0.5".toList | _ => "1".toList)) "0.000000".toList =
    ("0:d-D\nACG+CGT 0.000000 0.666667 0\n(((+)))\n(((+)))\n" ++
     "1:d-a\nACG 0.000000 0.5 0\n...\n...\n" ++
     "0:d-a*\nCGT 0.000000 1 0\n...\n...\n" ++
     "Total n(s*) = 0.000000").toList := by decide +kernel

/-- a zero-length domain is NOT written: the component of `C06.lean` Part 1 with the zero-length sequence `z` emits no
    statement for it (so the `.mfe` has no record `c-z`; `finish` writes `sequence c-z = ` on its own) … -/
example : (Emit.compStmts exComp).filterMap seqNameOf = ["c-a", "c-b", "c-ab"] := by decide +kernel

/-- … and a specification that did contain a zero-length sequence is outside the condition -/
example : specReadable { dupSpec with seqs := dupSpec.seqs ++ [⟨"d-z", false, 0, [], [], [⟨"d-z", false, 0⟩]⟩] } = false := by
  decide +kernel

/-- a name outside the reader's alphabet is outside the source predicate -/
example : ParsePil.srcCharsOk { dupSrc with stmts := [.seq "a.b" [.nuc "2N".toList] none] } = false := by decide +kernel

end Pepper.C06.Text
