import PepperProofs.Subst
/-!
# C13 — parameterised templates compile like their hand-expanded form

Model: `PepperModel/Subst.lean` (`processList`, `bindArgs`), source `var_substitute.process_list` and the
arity binding of `component_parser.load_component` / `system_parser.load_system`.

Specification: `handExpand` — the file one would write by hand: comments removed, `length` lines evaluated
into the environment and removed, every `<e>` replaced by its value, every line replaced by one
newline-terminated line per element of the cartesian product of the alternatives of its brace groups in
lexicographic order with the leftmost group slowest (`choices` over the decomposition `segs`), all-white
results omitted, everything else untouched.

Python's `eval` and `str` are parameters (`evalExpr`, `str`) of model and specification alike: the theorems
hold for every evaluator, so nothing about `eval` is assumed beyond its being a function of the environment
and the expression text that either returns a value or raises.

The theorems speak about lines whose braces are flat after expression substitution (`FlatBraces`: groups
not nested, no stray brace).  On other lines the model still follows the Python (`duplicate_recursion`) but
there is no hand-expanded form to compare with.
-/
namespace Pepper.C13
open Pepper.Subst

/-- **Main theorem.**  For every evaluator, every template (list of lines, the last one with or without a
    final newline) and every environment: if every text that reaches brace expansion (the source line after
    comment stripping, expression substitution and newline termination; computed by `substituted`, up to the
    first evaluation error) has flat braces, then `process_list` returns exactly the hand-expanded file, or
    fails with exactly the same evaluation error. -/
theorem subst_is_expansion {E Val : Type} (evalExpr : Env Val → Str → Except E Val) (str : Val → Str)
    (lines : List Str) (env : Env Val)
    (h : ∀ l ∈ substituted evalExpr str lines env, FlatBraces l) :
    processList evalExpr str lines env = handExpand evalExpr str lines env :=
  processList_eq_handExpand evalExpr str lines env h

/-- The core of it, free of any parsing: for every well-formed sequence of literal texts and brace groups,
    the recursion of `duplicate` ("substitute each alternative of the first group and start again from the
    beginning of the line") applied to the way the sequence is written in a template yields the
    concatenation of the lexicographic product of the groups, leftmost group slowest. -/
theorem duplicate_is_product (S : List Seg) (hw : wfSegs S = true) :
    duplicate (render S) = (choices S).flatten :=
  duplicate_render S hw

/-- A line with flat braces has a well-formed decomposition into texts and groups which, written out again,
    is the line itself, character for character — and `segs` computes one. -/
theorem segs_decomposes {l : Str} (h : FlatBraces l) :
    wfSegs (segs false l) = true ∧ render (segs false l) = l :=
  segs_flat h

/-- Single line: on a line with flat braces `duplicate` returns the hand expansion of that line. -/
theorem duplicate_is_expansion {l : Str} (h : FlatBraces l) : duplicate l = expandLine l :=
  duplicate_eq_expandLine h

/-- "Leftmost group varying slowest", explicitly: there are exactly `total S` (the product of the numbers
    of alternatives) instances, and instance number `j` takes, in the leftmost group, alternative number
    `j / (product of the sizes of the groups to its right)` and is instance `j % (that product)` in the
    rest of the line. -/
theorem product_order (S : List Seg) :
    (choices S).length = total S ∧ ∀ j, j < total S → (choices S)[j]? = some (pickAt S j) :=
  ⟨choices_length S, choices_index S⟩

/-- With or without a final newline: whatever the line handed to `terminate` ends with, every line of its
    expansion ends with a newline, so instances are never glued together. -/
theorem instances_newline_terminated {l : Str} (h : FlatBraces (terminate l)) :
    ∀ x ∈ choices (segs false (terminate l)), x.getLast? = some '\n' := by
  obtain ⟨_, e⟩ := segs_flat h
  exact choices_last _ '\n' (by rw [e]; exact terminate_last l) (by decide)

/-- The model's `duplicate` (recursion on a fuel argument) satisfies the recursion equation of the Python
    function on every line, flat or not: the fuel never runs out. -/
theorem duplicate_recursion (l : Str) :
    duplicate l = match findGroup l with
      | none => l
      | some (start, inner, stop) =>
        ((splitOn ',' inner).map (fun op => duplicate (start ++ op ++ stop))).flatten :=
  duplicate_unfold l

/-- Arity binding: with as many arguments as declared parameters the environment is exactly
    `zip params args` (most recent binding first, the representation of `Env`); otherwise, and only
    otherwise, the call is rejected. -/
theorem arity_binding {Val : Type} (ps : List Str) (as : List Val) :
    (ps.length = as.length → bindArgs ps as = .ok (ps.zip as).reverse) ∧
    (ps.length ≠ as.length → bindArgs ps as = .error .arity) :=
  ⟨bindArgs_ok ps as, bindArgs_err ps as⟩

/-- … read through `Env.get`: with distinct parameter names the i-th parameter is bound to the i-th argument
    and nothing else is bound. -/
theorem arity_lookup {Val : Type} (ps : List Str) (as : List Val) (hl : ps.length = as.length) (hn : ps.Nodup) :
    ∃ env, bindArgs ps as = .ok env ∧
      (∀ i (h : i < ps.length), env.get ps[i] = some (as[i]'(hl ▸ h))) ∧
      (∀ x, x ∉ ps → env.get x = none) := by
  refine ⟨_, bindArgs_ok ps as hl, fun i h => ?_, fun x hx => ?_⟩
  · apply get_of_mem_nodup
    · rw [List.map_reverse, List.map_fst_zip (by omega)]
      exact nodup_reverse hn
    · apply List.mem_reverse.2
      have hz : i < (ps.zip as).length := by simp [List.length_zip]; omega
      have := List.getElem_mem hz
      rwa [List.getElem_zip] at this
  · apply get_none_of_not_mem
    rw [List.map_reverse, List.map_fst_zip (by omega)]
    simpa using hx

/-! ### non-vacuity

(`decide +kernel`: the `Decidable` instance is evaluated by the kernel only — no axiom is added; the elaborator's
own evaluator is skipped because it does not share the sub-terms of the expression parser and takes minutes) -/

/-- a template with a `length` chain, several expressions per line, a comment, a blank line, two brace groups
    on one line (one with an empty alternative), and no final newline -/
abbrev exTemplate : List Str := [
  "length k = n * 2 + 1   # derived\n",
  "length j = k - m // 2\n",
  "sequence a<n> = \"<k>N\" : <k+1>\n",
  "   # nothing here\n",
  "\n",
  "strand {X,Y}{1,2,} = a<n> b* : <j>"].map String.toList

abbrev exEnv : Env Int := [("m".toList, 5), ("n".toList, 3)]

/-- the hypothesis of the main theorem holds on it … -/
example : ∀ l ∈ substituted evalInt pyStrInt exTemplate exEnv, FlatBraces l := by decide +kernel

/-- … the model computes this (`k = 7`, `j = 7 - 5 // 2 = 5`; six instances, `X` before `Y`, and for each of
    them `1`, `2`, empty) … -/
example : processList evalInt pyStrInt exTemplate exEnv = .ok
    ("sequence a3 = \"7N\" : 8\n" ++
     "strand X1 = a3 b* : 5\nstrand X2 = a3 b* : 5\nstrand X = a3 b* : 5\n" ++
     "strand Y1 = a3 b* : 5\nstrand Y2 = a3 b* : 5\nstrand Y = a3 b* : 5\n").toList := by decide +kernel

/-- … and so does the specification -/
example : handExpand evalInt pyStrInt exTemplate exEnv = processList evalInt pyStrInt exTemplate exEnv := by decide +kernel

/-- the environment comes from the argument tuple -/
example : bindArgs ["n".toList, "m".toList] [(3 : Int), 5] = .ok exEnv := by decide +kernel
example : bindArgs ["n".toList, "m".toList] [(3 : Int)] = .error .arity := by decide +kernel
example : bindArgs ["n".toList] [(3 : Int), 5] = .error .arity := by decide +kernel

/-- the order matters (the specification is not symmetric in the groups): leftmost slowest -/
example : expandLine "{a,b}{1,2}\n".toList = "a1\na2\nb1\nb2\n".toList ∧
    expandLine "{a,b}{1,2}\n".toList ≠ "a1\nb1\na2\nb2\n".toList := by decide +kernel

/-- floor division and modulus on negative numbers as in Python; an unbound name and a division by zero
    are errors of the whole call, the syntax error wins over the run-time error -/
example : processList evalInt pyStrInt ["<-7//2> <-7%3> <7%-3> <-(2--3)*+4>".toList] [] = .ok "-4 2 -2 -20\n".toList := by
  decide +kernel
example : processList evalInt pyStrInt ["a\n".toList, "<q>\n".toList] exEnv = .error .name := by decide +kernel
example : processList evalInt pyStrInt ["<1//0> <q>\n".toList] exEnv = .error .zerodiv := by decide +kernel
example : processList evalInt pyStrInt ["<1//0> <(>\n".toList] exEnv = .error .zerodiv := by decide +kernel
example : processList evalInt pyStrInt ["<1//0 + (>\n".toList] exEnv = .error .syntax := by decide +kernel

/-- outside the hypothesis the model still follows the Python: nested groups are expanded innermost first -/
example : ¬ FlatBraces "{a{b,c}d}\n".toList ∧ duplicate "{a{b,c}d}\n".toList = "abd\nacd\n".toList := by decide +kernel

end Pepper.C13
