import PepperProofs.WellFormed
import PepperProofs.SysPil
import PepperProps.C02
/-!
# C09 — accepted programs are well formed; malformed ones never compile silently

"Whenever the compiler produces output, every emitted structure is balanced and has one segment per strand whose
length equals that strand's length, every strand's length equals the sum of its domains and any declared length,
every name refers to a unique earlier definition, and instance arguments match template parameters in number.  A
program that violates one of these, including any single-token corruption of a valid program, is either rejected
or compiles to a specification that still satisfies all of them."

Model: `PepperModel/Comp.lean` (`Comp.load` = `load_component` from the statement loop on), `PepperModel/Emit.lean`
(`compStmts` / `instStmts`: the emitted PIL as the statement list a PIL reader obtains), `PepperModel/Sys.lean`
(`loadFile`).  Proofs: `PepperProofs/WellFormed.lean` (the predicate `WellFormedPil` and its relation to `Pil.load`),
`PepperProofs/CompWF.lean` / `CompStep.lean` (the table invariant `WF`, preserved by every accepted statement),
`PepperProofs/SysPil.lean` (systems).

The theorems quantify over EVERY source AST: there is no well-formedness hypothesis on the program, so a corrupted
program is just another `src`.  (The map from bytes to an AST-or-reject is on the implementation side and is
explored by token-level mutation in `harness/props/c09.py`.)  The only hypothesis is `UserNamesOk src`: no sequence
name the source defines or mentions has the compiler's reserved form `_Anon<digits>`, contains `*` or is empty.  It
is necessary: the compiler looks its own anonymous sequences up by name, so a user sequence called `_Anon7` is taken
for the anonymous region number 7 and the output can refer to a sequence of the wrong length; and the PIL reader
splits a trailing `*` off item names.
-/
namespace Pepper.C09
open Pepper.Comp Pepper.WellFormed

/-! ### the predicate -/

/-- what `WellFormedPil` checks, statement by statement (`step` returns the table extended by the statement, or
    `none` when a clause fails): names are new in their namespace; items (one trailing `*` stripped) and strands are
    defined EARLIER; a super-sequence's / strand's length is the sum of its items' lengths; a structure text uses only
    `.()+`, is balanced and its `+`-separated segments have exactly the lengths of its strands, in order; the members
    of an `equal` line have one length -/
theorem wellFormedPil_def (stmts : List Pil.Stmt) : WellFormedPil stmts = check stmts {} := rfl

theorem check_cons (st : Pil.Stmt) (r : List Pil.Stmt) (t : Tab) :
    check (st :: r) t = match step t st with | some t' => check r t' | none => false := rfl

/-- the structure clause in closed form -/
theorem structOk_iff (s : List Char) (lens : List Nat) :
    structOk s lens = true ↔
      (∀ c ∈ s, c = '.' ∨ c = '(' ∨ c = ')' ∨ c = '+') ∧ Notation.balanced s = true ∧
      (segments s).map List.length = lens := by
  simp only [structOk, Bool.and_eq_true, List.all_eq_true, Bool.or_eq_true, beq_iff_eq, and_assoc, or_assoc]

/-! ### components -/

/-- **C09, components.**  For every component source, every argument count, prefix and anonymous counter: if the
    compiler produces output, the emitted specification is well formed — every name is defined once and before use,
    every super-sequence and strand has the length of its items, every structure is balanced with one segment per
    strand of that strand's length. -/
theorem output_wellformed (src : Comp.Src) (n : Nat) (pfx : String) (a : Nat) (st : Comp.St) (a' : Nat)
    (hload : Comp.load src n pfx a = .ok (st, a')) (hnames : UserNamesOk src = true) :
    WellFormedPil (Emit.compStmts st) = true :=
  compStmts_wellFormed (load_WF hload hnames)

/-- **declared lengths.**  In the tables the text is printed from (`Comp.emitPil`): the number printed after `:` on a
    `sequence` line is the length of the constraint string printed on it; on a `sup-sequence` / `strand` line it is
    the sum of the lengths of the items printed on that line (the non-dummy ones), and every item carries the length
    of the sequence it names.  (A declared length in the source different from that sum is rejected:
    `declared_length_enforced`.) -/
theorem declared_lengths_consistent (src : Comp.Src) (n : Nat) (pfx : String) (a : Nat) (st : Comp.St) (a' : Nat)
    (hload : Comp.load src n pfx a = .ok (st, a')) (hnames : UserNamesOk src = true) :
    (∀ e ∈ st.baseSeqs, e.len = e.const.length) ∧
    (∀ e ∈ st.supSeqs, e.len = ((e.items.filter (!·.dummy)).map (·.len)).sum ∧
        ∀ i ∈ e.items, ∃ ie, st.findSeq i.name = some ie ∧ i.len = ie.len) ∧
    (∀ t ∈ st.strands, t.len = ((t.items.filter (!·.dummy)).map (·.len)).sum ∧
        ∀ i ∈ t.items, ∃ ie, st.findSeq i.name = some ie ∧ i.len = ie.len) := by
  have hw := load_WF hload hnames
  refine ⟨?_, ?_, ?_⟩
  · intro e he
    simp only [St.baseSeqs, List.mem_filter, Bool.not_eq_true'] at he
    exact ((hw.seqs.entries e he.1).base he.2).2.1.symm
  · intro e he
    simp only [St.supSeqs, List.mem_filter] at he
    obtain ⟨h1, _, h3, _⟩ := (hw.seqs.entries e he.1).sup he.2
    exact ⟨by rw [sum_filter_nondummy]; exact h3, h1⟩
  · intro t ht
    have := hw.strands t ht
    exact ⟨by rw [sum_filter_nondummy]; exact this.len, this.items⟩

/-- the lines in question, as printed -/
theorem declared_length_lines (st : Comp.St) :
    (∀ e ∈ st.supSeqs, e.len ≠ 0 →
      "sup-sequence " ++ st.pfx ++ e.name ++ " = " ++ itemNames st.pfx e.items ++ " : " ++ toString e.len ∈ Comp.emitPil st) ∧
    (∀ t ∈ st.strands,
      "strand " ++ (if t.dummy then "[dummy] " else "") ++ st.pfx ++ t.name ++ " = " ++ itemNames st.pfx t.items ++ " : " ++
        toString t.len ∈ Comp.emitPil st) := by
  refine ⟨?_, ?_⟩
  · intro e he hz
    simp only [Comp.emitPil, List.mem_append, List.mem_map, List.mem_filter]
    exact Or.inl (Or.inl (Or.inl (Or.inr ⟨e, ⟨he, by simpa using hz⟩, rfl⟩)))
  · intro t ht
    simp only [Comp.emitPil, List.mem_append, List.mem_map]
    exact Or.inl (Or.inl (Or.inr ⟨t, ht, rfl⟩))

/-- a declared length that is not the sum of the items (no wildcard among them) is rejected -/
theorem declared_length_enforced (anon : Nat) (items : List CItem) (l : Nat) (b : Built)
    (h : buildSuper anon items (some l) = .ok b) : b.len = l := by
  unfold buildSuper at h
  simp only [bind, Except.bind] at h
  split at h
  · cases h
  · rename_i acc hacc
    split at h
    · split at h
      · rename_i heq
        simp only [pure, Except.pure, Except.ok.injEq] at h
        subst h
        simpa using heq
      · cases h
    · rename_i i j parts hwild
      split at h
      · cases h
      · rename_i hlt
        split at h
        · cases h
        · rename_i wl c hres
          simp only [pure, Except.pure, Except.ok.injEq] at h
          subst h
          have := resolve_some_len hres
          simp only at this ⊢
          omega

/-- **names.**  In every output the sequence names (atomic and super-sequences together), the strand names and the
    structure names are each free of repetitions -/
theorem names_unique (src : Comp.Src) (n : Nat) (pfx : String) (a : Nat) (st : Comp.St) (a' : Nat)
    (hload : Comp.load src n pfx a = .ok (st, a')) (hnames : UserNamesOk src = true) :
    (st.seqs.map (·.name)).Nodup ∧ (st.strands.map (·.name)).Nodup ∧ (st.structs.map (·.name)).Nodup :=
  let hw := load_WF hload hnames
  ⟨hw.seqs.nodup, hw.strandNames, hw.structNames⟩

/-- **structures.**  Every structure of every output is balanced and has one segment per strand, of that strand's
    length, whichever notation (HU, run-length, plain, domain-level) the source used -/
theorem structures_balanced_and_sized (src : Comp.Src) (n : Nat) (pfx : String) (a : Nat) (st : Comp.St) (a' : Nat)
    (hload : Comp.load src n pfx a = .ok (st, a')) (hnames : UserNamesOk src = true) :
    ∀ e ∈ st.structs, Notation.balanced e.struct = true ∧
      (∀ s ∈ e.strands, (st.findStrand s).isSome = true) ∧
      Notation.sizesOk e.struct (e.strands.map (fun s => ((st.findStrand s).map (·.len)).getD 0)) = true := by
  intro e he
  have := (load_WF hload hnames).structs e he
  exact ⟨this.bal, this.found, this.sizes⟩

/-- **the property's wording.**  Every program — valid, or any corruption of a valid one — is either rejected or
    compiles to a specification satisfying all the clauses -/
theorem rejects_or_wellformed (src : Comp.Src) (n : Nat) (pfx : String) (a : Nat) (hnames : UserNamesOk src = true) :
    (∃ e, Comp.load src n pfx a = .error e) ∨
    (∃ st a', Comp.load src n pfx a = .ok (st, a') ∧ WellFormedPil (Emit.compStmts st) = true) := by
  cases h : Comp.load src n pfx a with
  | error e => exact Or.inl ⟨e, rfl⟩
  | ok r =>
    obtain ⟨st, a'⟩ := r
    exact Or.inr ⟨st, a', rfl, output_wellformed src n pfx a st a' h hnames⟩

/-- **arity.**  A component instantiated with a number of arguments different from its number of parameters is
    rejected, whatever its body -/
theorem arity_checked (src : Comp.Src) (n : Nat) (pfx : String) (a : Nat) (h : src.params.length ≠ n) :
    Comp.load src n pfx a = .error .arity := by
  unfold Comp.load
  have : (src.params.length != n) = true := by simpa using h
  simp only [this, if_true, bind, Except.bind, throw, throwThe, MonadExceptOf.throw]

/-- the relation to the reader's object model: what `Pil.load` accepts (any code table) is well formed as soon as
    its structure texts are balanced -/
theorem wellFormed_of_load (tbl : CodeTable) (stmts : List Pil.Stmt) (spec : Pil.Spec)
    (h : Pil.load tbl stmts {} = .ok spec)
    (hbal : ∀ n p ss x, Pil.Stmt.struct n p ss x ∈ stmts → Notation.balanced x = true) :
    WellFormedPil stmts = true :=
  WellFormed.wellFormed_of_load tbl stmts spec h hbal

/-! ### systems -/

open Pepper.Sys Pepper.SysProofs in
/-- **C09, systems.**  For every bundle of sources and every instance tree `load_file` returns (a component, a
    system, systems of systems to any depth), the emitted specification — the statements of all instances under
    their instance-path prefixes, followed by one `sequence` and one `equal` line per signal — is well formed: names
    defined once and before use across the whole file, lengths consistent, structures balanced and sized, and the
    members of every `equal` line of one length.  No hypothesis on the programs other than on the spelling of names
    (`bundleNamesOk`: `UserNamesOk` for component sources; in system sources instance names without `-`, signal names
    non-empty, not ending in `*`, without `-`) — a system whose signal is called `c-a` and whose instance `c` has a
    sequence `a` genuinely emits one name twice. -/
theorem output_wellformed_system (b : Bundle) (fuel : Nat) (base : String) (args : Nat) (argKey pfx path : String)
    (includes : List String) (anon : Nat) (inst : Inst) (a' : Nat)
    (h : Sys.loadFile b fuel base args argKey pfx path includes anon = .ok (inst, a'))
    (hnames : bundleNamesOk b = true) : WellFormedPil (Emit.instStmts inst) = true := by
  obtain ⟨d, ports, _, _, hI⟩ := tree_full (tableOfBundle b) b (bundleOk_tableOfBundle hnames) fuel base args argKey pfx
    path includes anon inst a' h
  obtain ⟨spec, hl, _, _⟩ := hI.load
  exact WellFormed.wellFormed_of_load _ _ spec hl hI.bal

open Pepper.Sys Pepper.SysProofs in
/-- the property's wording, for systems -/
theorem rejects_or_wellformed_system (b : Bundle) (fuel : Nat) (base : String) (args : Nat) (argKey pfx path : String)
    (includes : List String) (anon : Nat) (hnames : bundleNamesOk b = true) :
    (∃ e, Sys.loadFile b fuel base args argKey pfx path includes anon = .error e) ∨
    (∃ inst a', Sys.loadFile b fuel base args argKey pfx path includes anon = .ok (inst, a') ∧
      WellFormedPil (Emit.instStmts inst) = true) := by
  cases h : Sys.loadFile b fuel base args argKey pfx path includes anon with
  | error e => exact Or.inl ⟨e, rfl⟩
  | ok r =>
    obtain ⟨inst, a'⟩ := r
    exact Or.inr ⟨inst, a', rfl, output_wellformed_system b fuel base args argKey pfx path includes anon inst a' h hnames⟩

open Pepper.Sys Pepper.SysProofs in
/-- **arity, through `load_file`** (= `Pepper.C02.arity_checked`): whatever `load_file` accepts was instantiated with
    as many arguments as the resolved file declares parameters — a component … -/
theorem arity_checked_file (b : Bundle) (fuel : Nat) (base : String) (args : Nat) (argKey pfx path : String)
    (includes : List String) (anon : Nat) (inst : Inst) (a' : Nat)
    (h : Sys.loadFile b fuel base args argKey pfx path includes anon = .ok (inst, a')) :
    ∃ fname issys newPath,
      resolveImport (fun p => b.exists_.contains (normPath p)) base path includes = .ok (fname, issys, newPath) ∧
      ((∃ c, b.files.lookup (normPath fname ++ argKey) = some (.comp c) ∧ c.params.length = args) ∨
       (∃ s, b.files.lookup (normPath fname ++ argKey) = some (.sys s) ∧ s.params.length = args)) := by
  obtain ⟨_, fname, issys, newPath, _, hr, hc⟩ := Pepper.C02.arity_checked b fuel base args argKey pfx path includes anon inst a' h
  refine ⟨fname, issys, newPath, hr, ?_⟩
  rcases hc with ⟨c, _, hl, _, hp, _⟩ | ⟨s, _, hl, _, hp, _⟩
  · exact Or.inl ⟨c, hl, hp⟩
  · exact Or.inr ⟨s, hl, hp⟩

/-! ### non-vacuity -/

/-- two atomic sequences (one with a wildcard), two strands (one with a declared length), a DOMAIN-LEVEL structure -/
def exSrc : Comp.Src :=
  { name := "c", params := [], inputs := [⟨"a", false, none⟩], outputs := [],
    stmts := [
      .seq "a" [.nuc "3N".toList] none,
      .seq "b" [.nuc "2S ?W".toList] (some 4),
      .strand false "X" [.ref "a" false, .ref "b" false] none,
      .strand false "Y" [.ref "b" true, .nuc "?N".toList, .ref "a" true] (some 9),
      .struct .default "T" ["X", "Y"] true "((+).)".toList ] }

example : UserNamesOk exSrc = true := by decide +kernel

/-- accepted; this is the output (the wildcard region `?N` became `_Anon0` of length 2) -/
example : (Comp.load exSrc 0 "c-" 0).toOption.map (fun r => Emit.compStmts r.1) =
    some [.seq "c-a" "NNN".toList, .seq "c-b" "SSWW".toList, .seq "c-_Anon0" "NN".toList,
          .strand "c-X" false ["c-a", "c-b"], .strand "c-Y" false ["c-b*", "c-_Anon0", "c-a*"],
          .struct "c-T" (some "1nt") ["c-X", "c-Y"] "(((((((+))))..)))".toList] := by decide +kernel

/-- and it is well formed -/
example : ((Comp.load exSrc 0 "c-" 0).toOption.map (fun r => WellFormedPil (Emit.compStmts r.1))) = some true := by
  decide +kernel

/-- the predicate is not trivially true: a structure with a wrongly sized segment, an unbalanced one, a forward
    reference, a duplicate definition are all refused -/
example : WellFormedPil [.seq "a" "NNN".toList, .strand "X" false ["a"], .struct "T" none ["X"] "....".toList] = false := by
  decide +kernel
example : WellFormedPil [.seq "a" "NNN".toList, .strand "X" false ["a"], .struct "T" none ["X"] "(()".toList] = false := by
  decide +kernel
example : WellFormedPil [.strand "X" false ["a"], .seq "a" "NNN".toList] = false := by decide +kernel
example : WellFormedPil [.seq "a" "NNN".toList, .sup "a" ["a"]] = false := by decide +kernel
example : WellFormedPil [.seq "a" "NNN".toList, .seq "b" "NN".toList, .equal ["a", "b*"]] = false := by decide +kernel
example : WellFormedPil [.seq "a" "NNN".toList, .strand "X" false ["a", "a*"], .struct "T" none ["X"] "(((.))".toList] = false := by
  decide +kernel
example : WellFormedPil [.seq "a" "NNN".toList, .strand "X" false ["a", "a*"], .struct "T" none ["X"] "((()))".toList] = true := by
  decide +kernel

/-- single-token corruptions of `exSrc` are rejected: the structure loses a parenthesis; the domain-level structure is
    balanced at domain level but not after expansion; the declared length is wrong; a name is misspelt; an argument is
    supplied to a template without parameters -/
example : (match Comp.load { exSrc with stmts := exSrc.stmts.take 4 ++ [.struct .default "T" ["X", "Y"] true "((+.)".toList] } 0 "c-" 0 with
    | .error .structNotation => true | _ => false) = true := by decide +kernel
example : (match Comp.load { exSrc with stmts := exSrc.stmts.take 4 ++ [.struct .default "T" ["X", "Y"] true "(.+.).".toList] } 0 "c-" 0 with
    | .error .structDomains => true | _ => false) = true := by decide +kernel
example : (match Comp.load { exSrc with stmts := exSrc.stmts.take 2 ++ [.strand false "X" [.ref "a" false, .ref "b" false] (some 8)] } 0 "c-" 0 with
    | .error .lengthMismatch => true | _ => false) = true := by decide +kernel
example : (match Comp.load { exSrc with stmts := exSrc.stmts.take 2 ++ [.strand false "X" [.ref "a" false, .ref "bb" false] none] } 0 "c-" 0 with
    | .error .undefinedSeq => true | _ => false) = true := by decide +kernel
example : (match Comp.load exSrc 1 "c-" 0 with | .error .arity => true | _ => false) = true := by decide +kernel

/-- the hypothesis `UserNamesOk` is necessary: with a user sequence named like the compiler's first anonymous
    sequence, the quoted region `"3N"` of strand `X` is looked up under that name, found (the user's, of length 5) and
    not registered; the output is accepted and is NOT well formed — strand `X` has length 5, its structure 3 -/
def reservedNameSrc : Comp.Src :=
  { name := "c", params := [], inputs := [], outputs := [],
    stmts := [.seq "_Anon0" [.nuc "5N".toList] none, .strand false "X" [.nuc "3N".toList] none,
              .struct .default "T" ["X"] false "...".toList] }
example : UserNamesOk reservedNameSrc = false := by decide +kernel
example : (Comp.load reservedNameSrc 0 "" 0).toOption.map (fun r => Emit.compStmts r.1) =
    some [.seq "_Anon0" "NNNNN".toList, .strand "X" false ["_Anon0"], .struct "T" (some "1nt") ["X"] "...".toList] := by
  decide +kernel
example : (Comp.load reservedNameSrc 0 "" 0).toOption.map (fun r => WellFormedPil (Emit.compStmts r.1)) = some false := by
  decide +kernel

/-- systems: the hypothesis holds for the example bundle of C02, and the emitted statements of its instance tree
    (instances `g1-…`, `g2-…`, signals `s0 s1 s2` with their `equal` lines) are well formed -/
example : Pepper.SysProofs.bundleNamesOk Pepper.C02.exBundle = true := by decide +kernel
example : Pepper.C02.exTree.map (fun i => WellFormedPil (Emit.instStmts i)) = some true := by decide +kernel
/-- … and a signal name containing the path separator is excluded by the hypothesis -/
example : Pepper.SysProofs.sysNamesOk { Pepper.C02.exSys with
    stmts := [.component "g1" "gate" 0 [⟨"g2-a", false⟩] [⟨"s1", false⟩]] } = false := by decide +kernel

end Pepper.C09
