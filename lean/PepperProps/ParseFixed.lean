import PepperProofs.ParseFixed
import PepperProps.C12
/-!
# ParseFixed — the text of a `--fixed` file (supports C12)

Not one of the numbered properties: it closes the gap between the TEXT of a fixed file and the `(kind, name, string)`
entries on which C12 is stated.  Model: `PepperModel/ParseFixed.lean` — `parse_fixed` (the regex after `utils.match`
rewrote it, run on the backtracking engine of `PepperModel/ParseComp.lean`), `load_fixed` (text-mode line iteration
with universal newlines, the skip regex, the list comprehension that raises at the first bad line) and the dispatch
of `compiler()` (`type_ in "sequence"` … = substring tests in code order).  Tied to the real functions by
`harness/parsecorr_fixed.py` (real `parse_fixed`, real `load_fixed` on files, the real dispatch observed through the
warnings and the emitted `.pil` of real compiles).  ASCII input; non-ASCII is outside the model.

Definitions used in the statements (`PepperProofs/ParseFixed.lean`, all decidable):
* `wordOk` (non-empty over `\w`), `nameOk` (non-empty over `[\w-]`), `seqOk` (non-empty over `ATCGNS+`);
* `sepOk` (non-empty over `\s`), `padOk` (any number of `[\s+\t]`: white space AND `+` — what `utils.match` makes of
  `[ \t]*`), `tailOk` (white space only; or at least one white space character, `#`, and a comment after whose first
  line break only white space follows);
* `eatPlus`: a sequence text without its leading `+` signs (all but one of them if there is nothing else);
* `fileLinesS text`: the lines `for line in f` yields (universal newlines, terminator kept); `LineOk`: a line's shape;
* `noLeadingPlus s`: the text does not start with `+`; `IsSubstr a b`: Python's `a in b` on `str` (`List.IsInfix` of
  the character lists); `FixCodes t`: the six letters `ATCGNS` are codes of the table `t`.
-/
namespace Pepper.ParseFixed.Props
open Pepper.ParseComp Pepper.ParseFixed

/-! ### (a) parsing a spelled entry gives the entry back -/

/-- **parse ∘ render, any legal spacing.**  For every kind word over `\w`, name over `[\w-]` and sequence text over
    `ATCGNS+` (all non-empty), with one or more `\s` between kind and name, any run of `[\s+\t]` on either side of
    `=`, and white space and / or a ` #comment` at the end (a trailing newline is such white space): `parse_fixed`
    returns the kind word, the name, and the sequence text WITHOUT ITS LEADING `+` SIGNS (`eatPlus`: the class in
    front of the group is greedy and contains `+`; if the text consists of `+` signs only, one is left).
    This is the full-strength statement; the statement "returns `seq`" is false for texts that start with `+`
    (`parse_render_eats_plus` below), and true for all others (`parse_render_exact`). -/
theorem parse_render (kind sep name pad1 pad2 seq tl : String) (hk : wordOk kind = true) (hsep : sepOk sep = true)
    (hn : nameOk name = true) (hp1 : padOk pad1 = true) (hp2 : padOk pad2 = true) (hs : seqOk seq = true)
    (ht : tailOk tl = true) :
    parseFixedLine (kind ++ sep ++ name ++ pad1 ++ "=" ++ pad2 ++ seq ++ tl) =
      .ok (kind, name, String.ofList (eatPlus seq.toList)) := by
  rw [parseFixedLine_eq, toList_line]
  have h := reFixed_render (wordOkL_iff.mp hk) (sepOkL_iff.mp hsep) (nameOkL_iff.mp hn) (padOkL_iff.mp hp1)
    (padOkL_iff.mp hp2) (seqOkL_iff.mp hs) (tailShape_of_ok ht)
  rw [parseFixedL_ok_iff.mpr h]
  simp [convR, convT, String.ofList_toList]

/-- … and exactly the sequence text when it does not start with `+` -/
theorem parse_render_exact (kind sep name pad1 pad2 seq tl : String) (hk : wordOk kind = true) (hsep : sepOk sep = true)
    (hn : nameOk name = true) (hp1 : padOk pad1 = true) (hp2 : padOk pad2 = true) (hs : seqOk seq = true)
    (hplus : noLeadingPlus seq = true) (ht : tailOk tl = true) :
    parseFixedLine (kind ++ sep ++ name ++ pad1 ++ "=" ++ pad2 ++ seq ++ tl) = .ok (kind, name, seq) := by
  rw [parse_render kind sep name pad1 pad2 seq tl hk hsep hn hp1 hp2 hs ht]
  have hne := (seqOkL_iff.mp hs).1
  have : eatPlus seq.toList = seq.toList := by
    apply eatPlus_of_head _ hne
    intro c r e
    unfold noLeadingPlus at hplus
    rw [e] at hplus
    simpa using hplus
  rw [this, String.ofList_toList]

/-- the canonical spelling `kind name = seq` -/
theorem parse_render_plain (kind name seq : String) (hk : wordOk kind = true) (hn : nameOk name = true)
    (hs : seqOk seq = true) (hplus : noLeadingPlus seq = true) :
    parseFixedLine (kind ++ " " ++ name ++ " = " ++ seq) = .ok (kind, name, seq) := by
  have h := parse_render_exact kind " " name " " " " seq "" hk (by decide) hn (by decide) (by decide) hs hplus (by decide)
  have e : kind ++ " " ++ name ++ " " ++ "=" ++ " " ++ seq ++ "" = kind ++ " " ++ name ++ " = " ++ seq := by
    apply String.toList_inj.mp
    simp only [String.toList_append, List.append_assoc, show " = ".toList = " ".toList ++ ("=".toList ++ " ".toList) by decide,
      show "".toList = [] by decide, List.append_nil]
  rwa [e] at h

/-- the same as a line of a file (with its newline), as `load_fixed` hands it over -/
theorem parse_render_plain_nl (kind name seq : String) (hk : wordOk kind = true) (hn : nameOk name = true)
    (hs : seqOk seq = true) (hplus : noLeadingPlus seq = true) :
    parseFixedLine (kind ++ " " ++ name ++ " = " ++ seq ++ "\n") = .ok (kind, name, seq) := by
  have h := parse_render_exact kind " " name " " " " seq "\n" hk (by decide) hn (by decide) (by decide) hs hplus (by decide)
  have e : kind ++ " " ++ name ++ " " ++ "=" ++ " " ++ seq ++ "\n" = kind ++ " " ++ name ++ " = " ++ seq ++ "\n" := by
    apply String.toList_inj.mp
    simp only [String.toList_append, List.append_assoc, show " = ".toList = " ".toList ++ ("=".toList ++ " ".toList) by decide]
  rwa [e] at h

/-- **documented surprise: leading `+` signs of the sequence text are lost.**  `structure s = +ACGT` fixes `s` to
    `ACGT` (one strand), not to an empty strand followed by `ACGT` -/
example : parseFixedLine "structure s = +ACGT\n" = .ok ("structure", "s", "ACGT") := by
  have h := parse_render "structure" " " "s" " " " " "+ACGT" "\n" (by decide) (by decide) (by decide) (by decide) (by decide)
    (by decide) (by decide)
  rw [show "structure" ++ " " ++ "s" ++ " " ++ "=" ++ " " ++ "+ACGT" ++ "\n" = "structure s = +ACGT\n" by decide,
    show String.ofList (eatPlus "+ACGT".toList) = "ACGT" by decide] at h
  exact h

/-- `+` is a member of the class around `=`, and a text of `+` signs keeps its last one -/
example : parseFixedLine "structure s +=+ ++ # two strands?\n" = .ok ("structure", "s", "+") := by
  have h := parse_render "structure" " " "s" " +" "+ " "++" " # two strands?\n" (by decide) (by decide) (by decide) (by decide)
    (by decide) (by decide) (by decide)
  rw [show "structure" ++ " " ++ "s" ++ " +" ++ "=" ++ "+ " ++ "++" ++ " # two strands?\n" = "structure s +=+ ++ # two strands?\n" by decide,
    show String.ofList (eatPlus "++".toList) = "+" by decide] at h
  exact h

/-- tabs, no blanks around `=`, separator controls, CR-less line end, a trailing comment -/
example : parseFixedLine "seq\t\x1cg1-a_2=ACGTNS+A \t# note" = .ok ("seq", "g1-a_2", "ACGTNS+A") := by
  have h := parse_render_exact "seq" "\t\x1c" "g1-a_2" "" "" "ACGTNS+A" " \t# note" (by decide) (by decide) (by decide) (by decide)
    (by decide) (by decide) (by decide) (by decide)
  rw [show "seq" ++ "\t\x1c" ++ "g1-a_2" ++ "" ++ "=" ++ "" ++ "ACGTNS+A" ++ " \t# note" = "seq\t\x1cg1-a_2=ACGTNS+A \t# note" by decide] at h
  exact h

/-! ### (b) what is accepted is well-formed, and is a spelled entry -/

/-- **accepted lines are well-formed and are rendered lines.**  Whatever `parse_fixed` accepts: the kind word is
    non-empty over `\w`, the name non-empty over `[\w-]`, the sequence text non-empty over `ATCGNS+`, and the line is
    the spelling of these three with legal gaps (so, with `parse_render`, the accepted lines are exactly the rendered ones) -/
theorem accepted_line_wellformed (line t n q : String) (h : parseFixedLine line = .ok (t, n, q)) :
    wordOk t = true ∧ nameOk n = true ∧ seqOk q = true ∧
    ∃ sep pad1 pad2 tl, line = t ++ sep ++ n ++ pad1 ++ "=" ++ pad2 ++ q ++ tl ∧
      sepOk sep = true ∧ padOk pad1 = true ∧ padOk pad2 = true ∧ tailOk tl = true := by
  obtain ⟨t', n', q', hre, rfl, rfl, rfl⟩ := parseFixedLine_ok h
  obtain ⟨ht, hn, hq, sep, p1, p2, tl, hline, hsep, hp1, hp2, htl⟩ := reFixed_shape hre
  refine ⟨?_, ?_, ?_, String.ofList sep, String.ofList p1, String.ofList p2, String.ofList tl, ?_, ?_, ?_, ?_, ?_⟩
  · simpa [wordOk, String.toList_ofList] using wordOkL_iff.mpr ht
  · simpa [nameOk, String.toList_ofList] using nameOkL_iff.mpr hn
  · simpa [seqOk, String.toList_ofList] using seqOkL_iff.mpr hq
  · apply String.toList_inj.mp
    rw [toList_line, hline]
    simp only [String.toList_ofList]
  · simpa [sepOk, String.toList_ofList] using sepOkL_iff.mpr hsep
  · simpa [padOk, String.toList_ofList] using padOkL_iff.mpr hp1
  · simpa [padOk, String.toList_ofList] using padOkL_iff.mpr hp2
  · simpa [tailOk, String.toList_ofList] using tailOk_of_shape htl

/-- the character classes, spelled out -/
theorem isFixCh_iff (c : Char) :
    isFixCh c = true ↔ (c = 'A' ∨ c = 'T' ∨ c = 'C' ∨ c = 'G' ∨ c = 'N' ∨ c = 'S' ∨ c = '+') := by
  simp [isFixCh, or_assoc]

theorem isPad_iff (c : Char) : isPad c = true ↔ (isSp c = true ∨ c = '+') := by
  constructor
  · exact isPad_cases
  · rintro (h | rfl)
    · exact sp_isPad h
    · decide

/-- a line that is skipped would not parse: the order "skip test first" in `load_fixed` hides nothing -/
theorem skipped_line_does_not_parse (line : String) (h : skipLine line = true) : parseFixedLine line = .error .syntax := by
  rw [parseFixedLine_eq, skipL_parse h]
  rfl

/-- the skip test: white space only, or white space, `#`, and a comment after whose first line break only white
    space follows (for a line of a file: a blank line or a comment line) -/
theorem skipLine_iff (line : String) : skipLine line = true ↔
    ∃ ws r, line.toList = ws ++ r ∧ (∀ c ∈ ws, isSp c = true) ∧
      (r = [] ∨ ∃ body, r = '#' :: body ∧ ∀ c ∈ body.dropWhile notNl, isSp c = true) :=
  skipL_iff line.toList

/-- leading white space is a syntax error (and with it the whole compile fails): no kind word at the start -/
example : parseFixedLine " sequence a = ACGT\n" = .error .syntax := by decide +kernel

/-! ### (c) `load_fixed` is line-local -/

/-- **the file is read line by line**: `load_fixed` succeeds with the entries `es` iff the results of `parse_fixed`
    on the non-skipped lines of the file, in order, are exactly `es` (all successes) -/
theorem loadFixed_line_local (text : String) (es : List (String × String × String)) :
    loadFixed text = .ok es ↔
      ((fileLinesS text).filter (fun l => !skipLine l)).map parseFixedLine = es.map .ok :=
  loadFixed_ok_iff text es

/-- **the file is accepted iff every non-skipped line is** -/
theorem loadFixed_accepts_iff (text : String) :
    (∃ es, loadFixed text = .ok es) ↔ ∀ l ∈ fileLinesS text, skipLine l = false → ∃ x, parseFixedLine l = .ok x :=
  loadFixed_isOk_iff text

/-- … and otherwise the outcome is the one error there is (`ValueError`, the compile fails) -/
theorem loadFixed_rejects_iff (text : String) :
    loadFixed text = .error .syntax ↔ ∃ l ∈ fileLinesS text, skipLine l = false ∧ parseFixedLine l = .error .syntax := by
  have h := loadFixed_accepts_iff text
  constructor
  · intro he
    apply Decidable.byContradiction
    intro hne
    have : ∃ es, loadFixed text = .ok es := by
      rw [h]
      intro l hl hs
      cases hp : parseFixedLine l with
      | ok x => exact ⟨x, rfl⟩
      | error e => cases e; exact absurd ⟨l, hl, hs, hp⟩ hne
    obtain ⟨es, hes⟩ := this
    rw [hes] at he
    cases he
  · rintro ⟨l, hl, hs, hp⟩
    cases hr : loadFixed text with
    | error e => cases e; rfl
    | ok es =>
      obtain ⟨x, hx⟩ := h.mp ⟨es, hr⟩ l hl hs
      rw [hx] at hp
      cases hp

/-- the lines of a file: their concatenation is the text after newline translation, which contains no carriage
    return; every line is non-empty, contains `\n` only as its last character, and only the last line may lack it -/
theorem fileLines_spec (text : Str) :
    (fileLines text).flatten = univNl false text ∧ (∀ c ∈ univNl false text, c ≠ '\r') ∧
    ∀ pre l post, fileLines text = pre ++ l :: post → LineOk post.isEmpty l :=
  ⟨linesKeep_flatten _, univNl_no_cr false text, linesKeep_shape _⟩

/-- a text without carriage returns is not changed by the translation -/
theorem fileLines_no_cr (text : Str) (h : ∀ c ∈ text, c ≠ '\r') : (fileLines text).flatten = text := by
  rw [(fileLines_spec text).1, univNl_id text h]

example : fileLinesS "sequence a = A\r\n# c\rs b=C\n\nlast" = ["sequence a = A\n", "# c\n", "s b=C\n", "\n", "last"] := by decide +kernel
example : fileLinesS "" = [] := by decide
example : loadFixed "sequence a = A\r\n# c\rs b=C\n\n \x0c\n" = .ok [("sequence", "a", "A"), ("s", "b", "C")] := by decide +kernel
example : loadFixed "sequence a = A\nsequence a = U\n" = .error .syntax := by decide +kernel

/-! ### (d) the dispatch is a substring test, in code order -/

theorem kindOf_sequence (w : String) : kindOf w = some .sequence ↔ IsSubstr w "sequence" :=
  kindOfL_sequence w.toList

theorem kindOf_signal (w : String) : kindOf w = some .signal ↔ ¬ IsSubstr w "sequence" ∧ IsSubstr w "signal" :=
  kindOfL_signal w.toList

theorem kindOf_strand (w : String) : kindOf w = some .strand ↔ w = "strand" := by
  unfold kindOf
  rw [kindOfL_strand, show sStrand = "strand".toList by decide, String.toList_inj]

theorem kindOf_structure (w : String) : kindOf w = some .structure ↔ w = "structure" := by
  unfold kindOf
  rw [kindOfL_structure, show sStructure = "structure".toList by decide, String.toList_inj]

theorem kindOf_none (w : String) :
    kindOf w = none ↔ ¬ IsSubstr w "sequence" ∧ ¬ IsSubstr w "signal" ∧ w ≠ "strand" ∧ w ≠ "structure" := by
  unfold kindOf
  rw [kindOfL_none, show sStrand = "strand".toList by decide, show sStructure = "structure".toList by decide]
  simp only [ne_eq, String.toList_inj]
  rfl

/-- **`kindOf` is the dispatch of `compiler()`**: `type_ in "sequence"`, else `type_ in "signal"`, else
    `type_ == "strand"`, else `type_ == "structure"`, else nothing (the negated earlier tests are vacuous for the two
    exact words: neither is a substring of `sequence` or `signal`) -/
theorem kindOf_spec (w : String) :
    (kindOf w = some .sequence ↔ IsSubstr w "sequence") ∧
    (kindOf w = some .signal ↔ ¬ IsSubstr w "sequence" ∧ IsSubstr w "signal") ∧
    (kindOf w = some .strand ↔ ¬ IsSubstr w "sequence" ∧ ¬ IsSubstr w "signal" ∧ w = "strand") ∧
    (kindOf w = some .structure ↔
      ¬ IsSubstr w "sequence" ∧ ¬ IsSubstr w "signal" ∧ w ≠ "strand" ∧ w = "structure") ∧
    (kindOf w = none ↔ ¬ IsSubstr w "sequence" ∧ ¬ IsSubstr w "signal" ∧ w ≠ "strand" ∧ w ≠ "structure") := by
  refine ⟨kindOf_sequence w, kindOf_signal w, ?_, ?_, kindOf_none w⟩
  · rw [kindOf_strand]
    constructor
    · rintro rfl
      refine ⟨?_, ?_, rfl⟩
      · intro h; have := (isSub_iff _ _).mpr h; revert this; decide
      · intro h; have := (isSub_iff _ _).mpr h; revert this; decide
    · exact fun h => h.2.2
  · rw [kindOf_structure]
    constructor
    · rintro rfl
      refine ⟨?_, ?_, by decide, rfl⟩
      · intro h; have := (isSub_iff _ _).mpr h; revert this; decide
      · intro h; have := (isSub_iff _ _).mpr h; revert this; decide
    · exact fun h => h.2.2.2

/-- the keyword of a branch selects that branch (the driver hands entries on under these keywords) -/
theorem kindOf_word (k : FixKind) : kindOf k.word = some k := by
  cases k <;> decide

/-- **documented surprise: every kind word of at most three letters that selects the sequence branch** — the empty
    word cannot be written in a file (`\w+`), the other 19 can -/
theorem short_words_sequence (w : String) :
    (kindOf w = some .sequence ∧ w.length ≤ 3) ↔
      w ∈ ["", "s", "e", "q", "u", "n", "c", "se", "eq", "qu", "ue", "en", "nc", "ce", "seq", "equ", "que", "uen", "enc", "nce"] := by
  rw [mem_strings_iff, ← String.length_toList]
  unfold kindOf
  rw [kindOfL_sequence, ← isSub_iff, isSub_iff_mem]
  have : (w.toList ∈ infixes sSequence ∧ w.toList.length ≤ 3) ↔
      w.toList ∈ (infixes sSequence).filter (fun x => x.length ≤ 3) := by
    simp [List.mem_filter]
  rw [this]
  exact mem_iff_of_all (by decide +kernel) _

/-- **… and every one that selects the signal branch** (`s`, `n` and the empty word are sequences) -/
theorem short_words_signal (w : String) :
    (kindOf w = some .signal ∧ w.length ≤ 3) ↔
      w ∈ ["i", "g", "a", "l", "si", "ig", "gn", "na", "al", "sig", "ign", "gna", "nal"] := by
  rw [mem_strings_iff, ← String.length_toList]
  unfold kindOf
  rw [kindOfL_signal, ← isSub_iff, ← isSub_iff, isSub_iff_mem _ sSignal]
  have : ((¬ isSub w.toList sSequence = true ∧ w.toList ∈ infixes sSignal) ∧ w.toList.length ≤ 3) ↔
      w.toList ∈ (infixes sSignal).filter (fun x => !isSub x sSequence && decide (x.length ≤ 3)) := by
    simp only [List.mem_filter, Bool.and_eq_true, Bool.not_eq_true', decide_eq_true_eq, Bool.not_eq_true]
    constructor
    · rintro ⟨⟨h1, h2⟩, h3⟩; exact ⟨h2, h1, h3⟩
    · rintro ⟨h2, h1, h3⟩; exact ⟨⟨h1, h2⟩, h3⟩
  rw [this]
  exact mem_iff_of_all (by decide +kernel) _

/-- no word of at most three letters selects the strand or the structure branch, and longer words that look like
    keywords select nothing -/
example : kindOf "str" = none ∧ kindOf "struct" = none ∧ kindOf "sequences" = none ∧ kindOf "Sequence" = none ∧
    kindOf "signals" = none ∧ kindOf "strands" = none ∧ kindOf "domain" = none := by decide
example : kindOf "sig" = some .signal ∧ kindOf "seq" = some .sequence ∧ kindOf "e" = some .sequence ∧
    kindOf "l" = some .signal ∧ kindOf "n" = some .sequence ∧ kindOf "equence" = some .sequence ∧
    kindOf "ignal" = some .signal := by decide

/-! ### entries -/

/-- `fixedEntries` is `load_fixed` followed by the dispatch, dropping the lines that select no branch -/
theorem fixedEntries_spec (text : String) :
    fixedEntries text =
      (loadFixed text).map (fun raw => raw.filterMap (fun x => (kindOf x.1).map (fun k => (⟨k, x.2.1, x.2.2.toList⟩ : Entry)))) := by
  unfold fixedEntries fixedEntriesL loadFixed
  cases loadFixedL text.toList with
  | error e => rfl
  | ok l =>
    simp only [Except.map, Except.ok.injEq, kindOf]
    induction l with
    | nil => rfl
    | cons x r ih =>
      obtain ⟨t, n, q⟩ := x
      simp only [List.filterMap_cons, List.map_cons, entryOfL, String.toList_ofList]
      cases kindOfL t with
      | none => simpa using ih
      | some k => simpa using ih

/-- **every entry comes from a line of the file**: a non-skipped line that `parse_fixed` accepts, whose kind word
    selects the entry's branch; so (b) applies to it -/
theorem entry_from_line (text : String) (es : List Entry) (h : fixedEntries text = .ok es) (e : Entry) (he : e ∈ es) :
    ∃ l ∈ fileLinesS text, ∃ t, skipLine l = false ∧ parseFixedLine l = .ok (t, e.name, String.ofList e.seq) ∧
      kindOf t = some e.kind := by
  obtain ⟨l, hl, t, n, hs, hre, hk, hn⟩ := fixedEntriesL_mem h he
  refine ⟨String.ofList l, List.mem_map.mpr ⟨l, hl, rfl⟩, String.ofList t, ?_, ?_, ?_⟩
  · simpa [skipLine, String.toList_ofList] using hs
  · rw [parseFixedLine_eq, String.toList_ofList, parseFixedL_ok_iff.mpr hre, hn]
    rfl
  · simpa [kindOf, String.toList_ofList] using hk

/-- entries have well-formed names and non-empty strings over `ATCGNS+` -/
theorem entry_wellformed (text : String) (es : List Entry) (h : fixedEntries text = .ok es) (e : Entry) (he : e ∈ es) :
    nameOk e.name = true ∧ e.seq ≠ [] ∧ ∀ c ∈ e.seq, isFixCh c = true := by
  obtain ⟨l, _, t, _, hp, _⟩ := entry_from_line text es h e he
  obtain ⟨_, hn, hq, _⟩ := accepted_line_wellformed _ _ _ _ hp
  have := seqOkL_iff.mp (by simpa [seqOk, String.toList_ofList] using hq)
  exact ⟨hn, this.1, this.2⟩

/-! ### (e) composition with C12 -/

theorem fixCodes_dna : FixCodes Generated.dnaTable := by unfold FixCodes; decide

/-- **C12's assumption "strings consist of codes" is discharged for text input.**  For every fixed-file TEXT that
    `fixedEntries` accepts, every letter of every entry's string is `+` or a code of the table: exactly the
    hypothesis `hs` of `C12.fix_struct_exact` / `fix_struct_length`; for strings without `+` the hypothesis `hs` of
    `C12.fix_exact`, `fix_narrows`, `fix_frame`, `fix_strand`, `fix_port`, `fixSignal_spec`, … -/
theorem entries_over_codes {t : CodeTable} (ht : FixCodes t) (text : String) (es : List Entry)
    (h : fixedEntries text = .ok es) (e : Entry) (he : e ∈ es) :
    (∀ c ∈ e.seq, c = '+' ∨ t.isCode c = true) ∧ ('+' ∉ e.seq → ∀ c ∈ e.seq, t.isCode c = true) := by
  have hw := (entry_wellformed text es h e he).2.2
  have h1 : ∀ c ∈ e.seq, c = '+' ∨ t.isCode c = true := by
    intro c hc
    rcases isFixCh_cases (hw c hc) with rfl | rfl | rfl | rfl | rfl | rfl | rfl
    · exact Or.inr (ht _ (by simp))
    · exact Or.inr (ht _ (by simp))
    · exact Or.inr (ht _ (by simp))
    · exact Or.inr (ht _ (by simp))
    · exact Or.inr (ht _ (by simp))
    · exact Or.inr (ht _ (by simp))
    · exact Or.inl rfl
  refine ⟨h1, fun hp c hc => ?_⟩
  rcases h1 c hc with rfl | h2
  · exact absurd hc hp
  · exact h2

open Pepper Pepper.Comp Pepper.Fix Pepper.FixSpec in
/-- **from text to narrowing** (composition with `C12.fix_narrows`): a `sequence` line of an accepted fixed file,
    applied to a well-formed component the way the compile loop applies it (`Fix.fixNamed … .sequence`), with a string
    without `+`: after a successful fix the base set at every position is the old set intersected with the sets of
    the letters that landed on it — with no assumption on the string left: it comes from the text -/
theorem text_fix_narrows {t : CodeTable} (hl : t.lawful = true) (ht : FixCodes t) (text : String) (es : List Entry)
    (h : fixedEntries text = .ok es) (e : Entry) (he : e ∈ es) (hplus : '+' ∉ e.seq)
    {st st' : Comp.St} (hw : wfB t st = true) (fuel : Nat)
    (hfix : Fix.fixNamed t .sequence (fuel + 1) (.comp st) e.name e.seq = .ok (some (.comp st'))) (n : String) (i : Nat) :
    maskAt t st' n i = (hits t ((posOfView st e.name false).zip e.seq) n i).foldl (· &&& ·) (maskAt t st n i) := by
  have hs := (entries_over_codes ht text es h e he).2 hplus
  simp only [Fix.fixNamed] at hfix
  cases hf : st.findSeq e.name with
  | none => rw [hf] at hfix; cases hfix
  | some se =>
    rw [hf] at hfix
    simp only at hfix
    cases hi : fixItem t (st.seqs.length + 1) st e.name false e.seq with
    | error x => rw [hi] at hfix; cases hfix
    | ok s2 =>
      rw [hi] at hfix
      simp only [Except.map, Except.ok.injEq, Option.some.injEq, Sys.Inst.comp.injEq] at hfix
      subst hfix
      exact C12.fix_narrows hl hw hf false e.seq hs hi n i

open Pepper Pepper.Comp Pepper.Fix Pepper.FixSpec in
/-- **structures** (composition with `C12.fix_struct_exact`): for a `structure` line of an accepted fixed file the
    code path is the specification, the hypothesis on the letters being discharged by the text -/
theorem text_fix_struct_exact {t : CodeTable} (hl : t.lawful = true) (ht : FixCodes t) (text : String) (es : List Entry)
    (h : fixedEntries text = .ok es) (e : Entry) (he : e ∈ es)
    {st : Comp.St} (hw : wfB t st = true) {x : StructE} (hx : x ∈ st.structs)
    (hcount : (Notation.splitOn '+' e.seq).length = x.strands.length)
    (hlens : ∀ np ∈ x.strands.zip (Notation.splitOn '+' e.seq), (posOfStrandName st np.1).length = np.2.length) :
    fixStruct t st x e.seq = specFixStruct t st x e.seq ∧
    specFixStruct t st x e.seq =
      specFix t st ((x.strands.zip (Notation.splitOn '+' e.seq)).flatMap (fun np => posOfStrandName st np.1))
        (Notation.splitOn '+' e.seq).flatten :=
  C12.fix_struct_exact hl hw hx e.seq (entries_over_codes ht text es h e he).1 hcount hlens

/-- non-vacuity: a file text, its entries (the `sequences` line selects no branch), and the live table -/
example : fixedEntries "# fixed\nseq x = ACGTCG\nsequences a = TTTT\nstructure G\t=\tNNNNNNNNNN # all\nsig m=NN\n" =
    .ok [⟨.sequence, "x", "ACGTCG".toList⟩, ⟨.structure, "G", "NNNNNNNNNN".toList⟩, ⟨.signal, "m", "NN".toList⟩] := by
  decide +kernel

/-- … composed with C12's example component (`a = 4N`, `b = 2S`, `x = a b*`): the text `seq x = ACGTCG` makes
    `a = ACGT` and `b = CG` (through the code path, by `C12.fix_exact`) -/
example : ∃ e, fixedEntries "seq x = ACGTCG\n" = .ok [e] ∧
    (Fix.fixItem Generated.dnaTable 4 C12.exSt e.name false e.seq).toOption.map (fun s => s.seqs.map (·.const)) =
      some ["ACGT".toList, "CG".toList, []] := by
  refine ⟨⟨.sequence, "x", "ACGTCG".toList⟩, by decide +kernel, ?_⟩
  show (Fix.fixItem Generated.dnaTable 4 C12.exSt "x" false "ACGTCG".toList).toOption.map (fun s => s.seqs.map (·.const)) = _
  rw [C12.fix_exact C12.dna_lawful (by decide) (e := C12.exSt.seqs[2]) (by decide) 4 (by decide) false _ (by decide)]
  decide

end Pepper.ParseFixed.Props
