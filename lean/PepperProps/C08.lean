import PepperProofs.Notation
/-!
# C08 — the secondary-structure notations agree

"Helix/unpaired (HU) notation, run-length dot-paren, plain dot-paren and domain-level dot-paren
descriptions of one structure always compile to the identical nucleotide-level dot-paren string, whose
per-strand lengths match the strands and whose parentheses balance; converting any balanced dot-paren
string to HU notation and back returns the original string.  Unbalanced or wrongly sized descriptions
are rejected."

Model: `PepperModel/Notation.lean`; proofs: `PepperProofs/Notation.lean`.  A structure is an abstract
tree `ts : List T` (dots, strand breaks, pairs around sub-structures); `flatL ts` is its plain dot-paren
string.  Every balanced string is `flatL ts` for exactly one `ts` (`parseDP_flat`, `flat_of_parseDP`,
`balanced_iff`), so quantifying over `ts` is quantifying over all balanced strings.
-/
namespace Pepper.C08
open Pepper.Notation

/-! ### 1–2. the dot-paren grammar is exact and coincides with the depth-counter notion of balance -/

/-- the dot-paren parser accepts the printed form of every structure tree and returns that tree -/
theorem parseDP_flat (ts : List T) : parseDP (flatL ts) = some ts :=
  Notation.parseDP_flat ts

/-- whatever the dot-paren parser accepts, it accepts as the printed form of the tree it returns -/
theorem flat_of_parseDP {s : List Char} {ts : List T} (h : parseDP s = some ts) : flatL ts = s :=
  Notation.flat_of_parseDP h

/-- a string is balanced (depth counter never negative, ends at 0, only `.()+`) iff the dot-paren grammar
    accepts it -/
theorem balanced_iff (s : List Char) : balanced s = true ↔ (parseDP s).isSome = true :=
  Notation.balanced_iff s

/-! ### 3–4. HU at the level of syntax trees -/

/-- converting a structure tree to HU terms and expanding them gives back the tree's dot-paren string
    (with the fuel `dotParen2HU` uses) -/
theorem expand_toHU (ts : List T) : expandL (toHU (sizeL ts + 1) ts) = flatL ts :=
  Notation.expand_toHU ts

/-- the same for every sufficient fuel -/
theorem expand_toHU_fuel (fuel : Nat) (ts : List T) (h : sizeL ts < fuel) : expandL (toHU fuel ts) = flatL ts :=
  Notation.expand_toHU_fuel fuel ts h

/-- every HU expression expands to a balanced dot-paren string -/
theorem hu_balanced (h : List HU) : balanced (expandL h) = true :=
  Notation.hu_balanced h

/-! ### 5. the notations compile to the identical string (token level) -/

/-- plain dot-paren: the string of a structure compiles to itself -/
theorem plain_compiles (ts : List T) : compileToks false ((flatL ts).map Tok.ch) = some (flatL ts) :=
  Notation.plain_compiles ts

/-- run-length dot-paren: any run-length description whose expansion is the structure's string compiles
    to that string -/
theorem runlength_compiles (rl : List (Nat × Char)) (ts : List T) (hs : ∀ p ∈ rl, isDPSym p.2 = true)
    (he : expandExt rl = flatL ts) :
    compileToks false (rl.flatMap (fun p => [Tok.num p.1, Tok.ch p.2])) = some (flatL ts) :=
  Notation.runlength_compiles rl ts hs he

/-- HU: the canonical tokens of an HU expression compile to its expansion -/
theorem hu_compiles (h : List HU) : compileToks true (toksOfHU h) = some (expandL h) :=
  Notation.hu_compiles h

/-- the three nucleotide-level notations of one structure `ts` (HU as produced by `dotParen2HU`, any
    run-length description of it, plain) compile to the identical string `flatL ts`, which is balanced -/
theorem notations_agree (ts : List T) (rl : List (Nat × Char)) (hs : ∀ p ∈ rl, isDPSym p.2 = true)
    (he : expandExt rl = flatL ts) :
    compileToks true (toksOfHU (toHU (sizeL ts + 1) ts)) = some (flatL ts) ∧
    compileToks false (rl.flatMap (fun p => [Tok.num p.1, Tok.ch p.2])) = some (flatL ts) ∧
    compileToks false ((flatL ts).map Tok.ch) = some (flatL ts) ∧
    balanced (flatL ts) = true :=
  ⟨by rw [Notation.hu_compiles, Notation.expand_toHU], Notation.runlength_compiles rl ts hs he,
   Notation.plain_compiles ts, Notation.balanced_flatL ts⟩

/-- rejection: a run-length description whose expansion is unbalanced does not compile -/
theorem unbalanced_rejected (rl : List (Nat × Char)) (hs : ∀ p ∈ rl, isDPSym p.2 = true)
    (h : balanced (expandExt rl) = false) :
    compileToks false (rl.flatMap (fun p => [Tok.num p.1, Tok.ch p.2])) = none :=
  Notation.unbalanced_rejected rl hs h

/-! ### 6. the tokenizer reads canonical text back -/

/-- printing a token stream (every token followed by a blank) and tokenizing it returns the stream,
    provided no character token is a digit or white space -/
theorem tokenize_renderToks (ts : List Tok)
    (h : ∀ t ∈ ts, match t with | Tok.ch c => !c.isDigit && !isWs c | _ => true) :
    tokenize (renderToks ts) = ts :=
  Notation.tokenize_renderToks ts h

/-- the text `dotParen2HU` prints for an HU expression tokenizes to the expression's canonical tokens -/
theorem tokenize_render (h : List HU) : tokenize (stripWs (renderL h)) = toksOfHU h := by
  rw [Notation.tokenize_stripWs, Notation.tokenize_renderL]

/-! ### 7. text-level round trip -/

/-- converting any balanced dot-paren string to HU text and back returns the original string -/
theorem hu_roundtrip (s : List Char) (h : balanced s = true) : (dotParen2HU s).bind HU2dotParen = some s :=
  Notation.hu_roundtrip s h

/-! ### 8. domain-level descriptions -/

/-- an accepted domain-level expansion is balanced and has one segment per strand, each as long as the sum
    of that strand's domain lengths -/
theorem domainExpand_sound {struct : List Char} {doms : List (List Nat)} {full : List Char}
    (h : domainExpand struct doms = some full) :
    balanced full = true ∧ sizesOk full (doms.map List.sum) = true :=
  Notation.domainExpand_sound h

/-! ### 9. non-vacuity -/

/-- HU text and run-length text of one structure compile to the same plain string -/
example : compileStruct "U3 H2(U1 +) U2".toList = some "...((.+))..".toList := by decide +kernel
example : compileStruct "3. 2( . + 2) ..".toList = some "...((.+))..".toList := by decide +kernel
example : compileStruct "...((.+))..".toList = some "...((.+))..".toList := by decide +kernel
/-- and back -/
example : dotParen2HU "...((.+))..".toList = some "U3 H2(U1 +) U2".toList := by decide +kernel
/-- rejections: unbalanced run-length text, unbalanced plain text, unclosed helix -/
example : compileStruct "3( 2)".toList = none := by decide +kernel
example : compileStruct "(()".toList = none := by decide +kernel
example : compileStruct "H2(U3".toList = none := by decide +kernel
/-- the hypotheses of `runlength_compiles` and `unbalanced_rejected` are satisfiable -/
example : (∀ p ∈ [(2, '('), (3, '.'), (2, ')')], isDPSym p.2 = true) ∧
    expandExt [(2, '('), (3, '.'), (2, ')')] = flatL [T.pair [T.pair [T.dot, T.dot, T.dot]]] := by decide
example : (∀ p ∈ [(3, '('), (2, ')')], isDPSym p.2 = true) ∧ balanced (expandExt [(3, '('), (2, ')')]) = false := by
  decide
/-- domain level: wrongly sized and unbalanced descriptions are rejected, a good one is expanded -/
example : domainExpand "()".toList [[3, 5]] = none := by decide
example : domainExpand "(.)".toList [[2, 1]] = none := by decide
example : domainExpand "(+)".toList [[2]] = none := by decide
example : domainExpand "(.)".toList [[2, 1, 2]] = some "((.))".toList := by decide
example : domainExpand "(.+)".toList [[2, 1], [2]] = some "((.+))".toList ∧
    sizesOk "((.+))".toList [3, 2] = true := by decide

end Pepper.C08
