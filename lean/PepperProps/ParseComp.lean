import PepperProofs.ParseComp
import PepperProps.C09
/-!
# ParseComp — the statement-level text parser of `.comp` files (supports C01 / C09 / C13)

Not one of the numbered properties: it closes the gap between *text* and the component source AST (`Comp.Src`) on
which the theorems of C01, C09, C10, … are stated.  Model: `PepperModel/ParseComp.lean` — `utils.match` and the
regexes of `component_parser_regex.py` transcribed combinator by combinator into a backtracking engine (greedy
quantifiers that give characters back, optional groups, ordered alternatives: the first complete match in the
engine's order is the match, as in Python's `re`), `parse_constraints` / `parse_constraint` / `parse_signal`, the
`float()` acceptance test, and the statement loop of `component_parser.load_component` from the substituted
document on.  Tied to the real functions by the per-line correspondence `harness/parsecorr_comp.py` (real
`parse_*_statement` functions and the real loop with a recording `Component`, generated valid and malformed lines and
every line of every example).  ASCII input; non-ASCII is outside the model.

Definitions used in the statements (`PepperProofs/ParseCompDefs.lean`):
* `renderStmtWith sp s` / `renderDeclWith sp d` — the canonical spelling `harness/progen.py` uses, the `i`-th gap
  filled with `sp i`; `renderStmt` / `renderDecl` use single spaces.  `SpOk sp`: every gap is a non-empty run of
  spaces and tabs.
* `wfStmt`, `wfDecl` (decidable): names non-empty over `[A-Za-z0-9_-]` (`nameOk`), item lists / strand lists /
  kinetic name lists non-empty, quoted bodies non-empty over `[?\w\s]`, number texts over their regex class and
  accepted by `float()`, structure text non-empty, not starting with white space, passing the HU / dot-paren
  character check; parameter names non-empty without white space and commas.
* `accStmt`, `accDecl` (decidable): the shape of whatever is accepted — as `wf…` for `sequence` / `strand`
  statements, the declare line's name and ports and a structure's own name, option, and text; but the STRAND names
  inside a `structure` statement and the structure names inside a `kinetic` statement are only stripped pieces
  between `+` signs (`looseStrand`, `looseIn`, `looseOut`): the real regexes accept arbitrary text there.
* `docLines text` — the lines the loop looks at: pieces between `\n`, comment regex applied (a no-op, `docLines_eq`),
  stripped, empty ones dropped.
-/
namespace Pepper.ParseComp.Props
open Pepper.Comp Pepper.ParseComp

/-! ### (a) parsing the canonical spelling gives the AST back -/

/-- **parse ∘ render = id, any spacing.**  For every statement AST satisfying `wfStmt` and every way of filling the
    gaps with non-empty runs of spaces / tabs, the statement loop's body (`command = line.split()[0]`, dispatch, the
    statement regex with all its backtracking, `parse_constraints`, `float`, `int`) returns exactly that AST. -/
theorem parse_render (sp : Nat → String) (hsp : SpOk sp) (s : Stmt) (h : wfStmt s = true) :
    parseLine (renderStmtWith sp s) = .ok s :=
  parseLine_render hsp s h

/-- the spelling with single spaces -/
theorem parse_render_single (s : Stmt) (h : wfStmt s = true) : parseLine (renderStmt s) = .ok s :=
  parseLine_render spOk_single s h

/-- the declare line (`parse_declare_statement`, `parse_signal`), parameters / inputs / outputs possibly empty -/
theorem parse_render_declare (sp : Nat → String) (hsp : SpOk sp) (d : Decl) (h : wfDecl d = true) :
    parseDeclare (renderDeclWith sp d) = .ok d :=
  parseDeclare_render hsp d h

theorem parse_render_declare_single (d : Decl) (h : wfDecl d = true) : parseDeclare (renderDecl d) = .ok d :=
  parseDeclare_render spOk_single d h

/-- a port: `seq`, `seq*`, `seq(struct)`, `seq*(struct)` -/
theorem parse_render_port (p : Port) (h : wfPort p = true) : parseSignal (renderPort p).toList = .ok p := by
  unfold renderPort
  rw [String.toList_ofList]
  exact parseSignal_render p h

/-- non-trivial statements of each kind satisfy `wfStmt` (and the theorem applies to them) -/
example : wfStmt (.seq "toe-1" [.nuc "5N ?S".toList, .ref "a_b" true, .domains "X" false] (some 12)) = true := by decide
example : wfStmt (.strand true "S" [.ref "x" false, .nuc "3N".toList, .domains "y-2" true] none) = true := by decide
example : wfStmt (.struct (.value "1.5") "Gate" ["S", "T-2"] true "U3 H2(U4 +) U1".toList) = true := by decide
example : wfStmt (.struct .noOpt "G" ["S"] false "..((3.)) 2.".toList) = true := by decide
example : wfStmt (.kinetic (some "1e3") (some "2.5E6") ["A", "B"] ["C"]) = true := by decide
example : wfStmt (.kinetic none none ["A"] ["B", "C"]) = true := by decide
example : wfDecl ⟨"Comp-1", ["n", "toe"], [⟨"x", true, some "S"⟩, ⟨"y", false, none⟩], [⟨"z", false, some "T"⟩]⟩ = true := by decide
example : renderStmt (.seq "toe-1" [.nuc "5N ?S".toList, .ref "a_b" true, .domains "X" false] (some 12)) =
    "sequence toe-1 = \"5N ?S\" a_b* domains(X) : 12" := by decide
example : renderStmt (.struct (.value "1.5") "Gate" ["S", "T-2"] true "U3 H2(U4 +) U1".toList) =
    "structure [1.5nt] Gate = S + T-2 : domain U3 H2(U4 +) U1" := by decide
example : renderStmt (.kinetic (some "1e3") (some "2.5E6") ["A", "B"] ["C"]) =
    "kinetic [1e3 /M/s < k < 2.5E6 /M/s] A + B -> C" := by decide
example : renderDecl ⟨"Comp-1", ["n", "toe"], [⟨"x", true, some "S"⟩, ⟨"y", false, none⟩], [⟨"z", false, some "T"⟩]⟩ =
    "declare component Comp-1(n, toe): x*(S) + y -> z(T)" := by decide

/-- the theorems at concrete strings: these lines are accepted with exactly these ASTs -/
example : parseLine "sequence toe-1 = \"5N ?S\" a_b* domains(X) : 12" =
    .ok (.seq "toe-1" [.nuc "5N ?S".toList, .ref "a_b" true, .domains "X" false] (some 12)) := by
  have h := parse_render_single (.seq "toe-1" [.nuc "5N ?S".toList, .ref "a_b" true, .domains "X" false] (some 12)) (by decide)
  rwa [show renderStmt (.seq "toe-1" [.nuc "5N ?S".toList, .ref "a_b" true, .domains "X" false] (some 12)) =
    "sequence toe-1 = \"5N ?S\" a_b* domains(X) : 12" by decide] at h
example : parseLine "structure [1.5nt] Gate = S + T-2 : domain U3 H2(U4 +) U1" =
    .ok (.struct (.value "1.5") "Gate" ["S", "T-2"] true "U3 H2(U4 +) U1".toList) := by
  have h := parse_render_single (.struct (.value "1.5") "Gate" ["S", "T-2"] true "U3 H2(U4 +) U1".toList) (by decide)
  rwa [show renderStmt (.struct (.value "1.5") "Gate" ["S", "T-2"] true "U3 H2(U4 +) U1".toList) =
    "structure [1.5nt] Gate = S + T-2 : domain U3 H2(U4 +) U1" by decide] at h
example : parseLine "kinetic [1e3 /M/s < k < 2.5E6 /M/s] A + B -> C" =
    .ok (.kinetic (some "1e3") (some "2.5E6") ["A", "B"] ["C"]) := by
  have h := parse_render_single (.kinetic (some "1e3") (some "2.5E6") ["A", "B"] ["C"]) (by decide)
  rwa [show renderStmt (.kinetic (some "1e3") (some "2.5E6") ["A", "B"] ["C"]) =
    "kinetic [1e3 /M/s < k < 2.5E6 /M/s] A + B -> C" by decide] at h
example : parseDeclare "declare component Comp-1(n, toe): x*(S) + y -> z(T)" =
    .ok ⟨"Comp-1", ["n", "toe"], [⟨"x", true, some "S"⟩, ⟨"y", false, none⟩], [⟨"z", false, some "T"⟩]⟩ := by
  have h := parse_render_declare_single ⟨"Comp-1", ["n", "toe"], [⟨"x", true, some "S"⟩, ⟨"y", false, none⟩], [⟨"z", false, some "T"⟩]⟩ (by decide)
  rwa [show renderDecl ⟨"Comp-1", ["n", "toe"], [⟨"x", true, some "S"⟩, ⟨"y", false, none⟩], [⟨"z", false, some "T"⟩]⟩ =
    "declare component Comp-1(n, toe): x*(S) + y -> z(T)" by decide] at h

/-! ### (b) what is accepted has well-formed names -/

/-- the name class is `[A-Za-z0-9_-]` -/
theorem isName_iff (c : Char) :
    isName c = true ↔ (c.isUpper = true ∨ c.isLower = true ∨ c.isDigit = true ∨ c = '_' ∨ c = '-') := by
  simp only [isName, isWord, Char.isAlphanum, Char.isAlpha, Bool.or_eq_true, beq_iff_eq, or_assoc]

theorem nameOk_iff (n : String) : nameOk n = true ↔ n.toList ≠ [] ∧ ∀ c ∈ n.toList, isName c = true :=
  nameOkL_iff

/-- **accepted statements have well-formed names.**  Whatever line the statement loop accepts: in a `sequence` or
    `strand` statement the defined name and every name in the item list (`x`, `x*`, `domains(x)`, `domains(x*)`) is
    non-empty over `[A-Za-z0-9_-]` and every quoted body is non-empty over `[?\w\s]`; a `structure` statement's name
    likewise, its option is absent, `no-opt`, or a text over `[\w.]` that `float()` accepts, its structure text is
    non-empty over `[HU.()+\d\s]` and passes the HU / dot-paren character check; kinetic rate texts are over `[\deE.]`
    and accepted by `float()`; declared lengths are numerals (they are `Nat`s).  Strand names in a `structure`
    statement and structure names in a `kinetic` statement are only guaranteed to be stripped pieces between `+` signs
    (without `:` resp. without `[`, `]`, `>` / line breaks): the real regexes accept arbitrary text there; such names
    are checked against the tables later (`Comp.addStmt`: `undefinedStrand`, `undefinedStruct`). -/
theorem parse_names_wellformed (line : String) (s : Stmt) (h : parseLine line = .ok s) : accStmt s = true :=
  parseLineL_acc h

/-- the declare line: component name, port sequence names and port structure names non-empty over `[A-Za-z0-9_-]`;
    parameters non-empty stripped pieces between commas -/
theorem parse_names_wellformed_declare (line : String) (d : Decl) (h : parseDeclare line = .ok d) : accDecl d = true :=
  parseDeclareL_acc h

/-- `accStmt` spelled out for `sequence` statements -/
theorem accepted_sequence (line : String) (n : String) (items : List SrcItem) (len : Option Nat)
    (h : parseLine line = .ok (.seq n items len)) :
    (n.toList ≠ [] ∧ ∀ c ∈ n.toList, isName c = true) ∧
    ∀ it ∈ items, match it with
      | .nuc t => t ≠ [] ∧ ∀ c ∈ t, isBodyCh c = true
      | .ref m _ => m.toList ≠ [] ∧ ∀ c ∈ m.toList, isName c = true
      | .domains m _ => m.toList ≠ [] ∧ ∀ c ∈ m.toList, isName c = true := by
  have hacc := parse_names_wellformed line _ h
  have e : accStmt (.seq n items len) = (nameOk n && items.all wfItem) := rfl
  rw [e] at hacc
  simp only [Bool.and_eq_true, List.all_eq_true] at hacc
  refine ⟨nameOkL_iff.mp hacc.1, ?_⟩
  intro it hit
  have hw := hacc.2 it hit
  cases it with
  | nuc t =>
    simp only [wfItem, Bool.and_eq_true, Bool.not_eq_true', List.isEmpty_eq_false_iff, List.all_eq_true] at hw
    exact hw
  | ref m st => exact nameOkL_iff.mp hw
  | domains m st => exact nameOkL_iff.mp hw

/-- `accStmt` spelled out for `strand` statements -/
theorem accepted_strand (line : String) (d : Bool) (n : String) (items : List SrcItem) (len : Option Nat)
    (h : parseLine line = .ok (.strand d n items len)) :
    (n.toList ≠ [] ∧ ∀ c ∈ n.toList, isName c = true) ∧
    ∀ it ∈ items, match it with
      | .nuc t => t ≠ [] ∧ ∀ c ∈ t, isBodyCh c = true
      | .ref m _ => m.toList ≠ [] ∧ ∀ c ∈ m.toList, isName c = true
      | .domains m _ => m.toList ≠ [] ∧ ∀ c ∈ m.toList, isName c = true := by
  have hacc := parse_names_wellformed line _ h
  have e : accStmt (.strand d n items len) = (nameOk n && items.all wfItem) := rfl
  rw [e] at hacc
  simp only [Bool.and_eq_true, List.all_eq_true] at hacc
  refine ⟨nameOkL_iff.mp hacc.1, ?_⟩
  intro it hit
  have hw := hacc.2 it hit
  cases it with
  | nuc t =>
    simp only [wfItem, Bool.and_eq_true, Bool.not_eq_true', List.isEmpty_eq_false_iff, List.all_eq_true] at hw
    exact hw
  | ref m st => exact nameOkL_iff.mp hw
  | domains m st => exact nameOkL_iff.mp hw

/-- `accStmt` spelled out for `structure` statements: name, structure text, option -/
theorem accepted_structure (line : String) (opt : OptSrc) (n : String) (strands : List String) (dom : Bool) (text : List Char)
    (h : parseLine line = .ok (.struct opt n strands dom text)) :
    (n.toList ≠ [] ∧ ∀ c ∈ n.toList, isName c = true) ∧
    (text ≠ [] ∧ ∀ c ∈ text, isStructCh c = true) ∧
    (∀ t, opt = .value t → (∀ c ∈ t.toList, isOptCh c = true) ∧ pyFloatOk t.toList = true) ∧
    (∀ x ∈ strands, strip x.toList = x.toList ∧ ∀ c ∈ x.toList, c ≠ ':' ∧ c ≠ '+') := by
  have hacc := parse_names_wellformed line _ h
  cases opt with
  | value t =>
    have e : accStmt (.struct (.value t) n strands dom text) =
        (nameOk n && numOk isOptCh t && strands.all looseStrand && !text.isEmpty && text.all isStructCh && notationOk text) := rfl
    rw [e] at hacc
    simp only [Bool.and_eq_true, List.all_eq_true, Bool.not_eq_true', List.isEmpty_eq_false_iff, numOk] at hacc
    obtain ⟨⟨⟨⟨⟨hn, hnum⟩, hs⟩, hne⟩, hall⟩, _⟩ := hacc
    refine ⟨nameOkL_iff.mp hn, ⟨hne, hall⟩, ?_, ?_⟩
    · intro t' e'
      cases e'
      exact hnum
    · intro x hx
      have := hs x hx
      simp only [looseStrand, strippedL, Bool.and_eq_true, beq_iff_eq, List.all_eq_true, bne_iff_ne, ne_eq] at this
      exact this
  | default =>
    have e : accStmt (.struct .default n strands dom text) =
        (nameOk n && true && strands.all looseStrand && !text.isEmpty && text.all isStructCh && notationOk text) := rfl
    rw [e] at hacc
    simp only [Bool.and_eq_true, List.all_eq_true, Bool.not_eq_true', List.isEmpty_eq_false_iff] at hacc
    obtain ⟨⟨⟨⟨⟨hn, _⟩, hs⟩, hne⟩, hall⟩, _⟩ := hacc
    refine ⟨nameOkL_iff.mp hn, ⟨hne, hall⟩, (fun t' e' => (nomatch e')), ?_⟩
    intro x hx
    have := hs x hx
    simp only [looseStrand, strippedL, Bool.and_eq_true, beq_iff_eq, List.all_eq_true, bne_iff_ne, ne_eq] at this
    exact this
  | noOpt =>
    have e : accStmt (.struct .noOpt n strands dom text) =
        (nameOk n && true && strands.all looseStrand && !text.isEmpty && text.all isStructCh && notationOk text) := rfl
    rw [e] at hacc
    simp only [Bool.and_eq_true, List.all_eq_true, Bool.not_eq_true', List.isEmpty_eq_false_iff] at hacc
    obtain ⟨⟨⟨⟨⟨hn, _⟩, hs⟩, hne⟩, hall⟩, _⟩ := hacc
    refine ⟨nameOkL_iff.mp hn, ⟨hne, hall⟩, (fun t' e' => (nomatch e')), ?_⟩
    intro x hx
    have := hs x hx
    simp only [looseStrand, strippedL, Bool.and_eq_true, beq_iff_eq, List.all_eq_true, bne_iff_ne, ne_eq] at this
    exact this

/-! ### (c) the document parser is total and line-local -/

/-- the comment regex of the loop never matches (a line from `split("\n")` contains no `\n`): the lines looked at
    are the stripped non-empty pieces between newlines -/
theorem docLines_eq (text : String) :
    docLines text = ((((splitOn '\n' text.toList).map strip).filter (fun l => !l.isEmpty)).map String.ofList) := by
  unfold docLines
  rw [docLinesL_eq]

/-- **`parseDoc` is total and line-local.**  `parseDoc` is a total function; it accepts a document iff the declare
    line parses and every non-empty stripped line parses (none of them starting with a command the loop refuses:
    `declare`, `equal`, `super-sequence`, `sup-sequence`, or any other word than `sequence` / `strand` / `structure` /
    `kinetic`); and then the resulting source is the declare line's header together with the per-line results, in
    order.  So the per-line correspondence covers whole documents. -/
theorem parseDoc_total_and_line_local (text decl : String) :
    ((∃ src, parseDoc text decl = .ok src) ↔
        (∃ d, parseDeclare decl = .ok d) ∧ ∀ l ∈ docLines text, ∃ st, parseLine l = .ok st) ∧
    (∀ src, parseDoc text decl = .ok src ↔
        ∃ d, parseDeclare decl = .ok d ∧ src = ⟨d.name, d.params, d.inputs, d.outputs, src.stmts⟩ ∧
          (docLines text).map parseLine = src.stmts.map .ok) ∧
    (∀ l st, parseLine l = .ok st →
        ∃ w, firstWord l.toList = some w ∧ w ∉ forbiddenWords ∧ (w = sSequence ∨ w = sStrand ∨ w = sStructure ∨ w = sKinetic)) :=
  ⟨parseDoc_total text decl, parseDoc_ok_iff text decl, fun _ _ h => parseLineL_not_forbidden h⟩

/-- the refused command words, spelled out -/
theorem forbiddenWords_def :
    forbiddenWords = ["declare".toList, "equal".toList, "super-sequence".toList, "sup-sequence".toList] := by decide

/-- a second `declare`, `equal`, `super-sequence`, `sup-sequence` lines and unknown commands are rejected whatever follows -/
example : parseLine "super-sequence x = a b" = .error .command := by decide
example : parseLine "equal a b" = .error .command := by decide
example : parseLine "declare component x: a -> b" = .error .command := by decide

/-! ### (d) from document TEXT to a well-formed specification (C09) -/

/-- what the parser accepts satisfies C09's hypothesis `UserNamesOk`, except that it may use a reserved name
    `_Anon<digits>` (the parser accepts `sequence _Anon0 = "5N"`; finding F16) -/
theorem userNamesOk_of_parse (text decl : String) (src : Src) (h : parseDoc text decl = .ok src)
    (hanon : noAnonNames src = true) : UserNamesOk src = true :=
  userNamesOk_of_parseDocL h hanon

/-- **C09 at the level of text.**  For EVERY declare line and EVERY document text (valid, corrupted, arbitrary
    bytes of ASCII): if the parser accepts it and the compile model succeeds on the resulting source, the emitted
    specification is well formed (every name defined once and before use, every super-sequence and strand of the
    length of its items, every structure balanced with one segment per strand of that strand's length) — provided no
    sequence name in the text has the reserved form `_Anon<digits>`.  No well-formedness hypothesis on the text. -/
theorem text_output_wellformed (text decl : String) (src : Src) (n : Nat) (pfx : String) (a : Nat) (st : Comp.St) (a' : Nat)
    (hparse : parseDoc text decl = .ok src) (hload : Comp.load src n pfx a = .ok (st, a'))
    (hanon : noAnonNames src = true) :
    WellFormed.WellFormedPil (Emit.compStmts st) = true :=
  Pepper.C09.output_wellformed src n pfx a st a' hload (userNamesOk_of_parse text decl src hparse hanon)

/-- the wording of C09 for text: rejected by the parser, rejected by the compiler, or compiled to a well-formed
    specification -/
theorem text_rejects_or_wellformed (text decl : String) (n : Nat) (pfx : String) (a : Nat) :
    (∃ e, parseDoc text decl = .error e) ∨
    (∃ src, parseDoc text decl = .ok src ∧
      (noAnonNames src = true →
        (∃ e, Comp.load src n pfx a = .error e) ∨
        (∃ st a', Comp.load src n pfx a = .ok (st, a') ∧ WellFormed.WellFormedPil (Emit.compStmts st) = true))) := by
  cases hp : parseDoc text decl with
  | error e => exact Or.inl ⟨e, rfl⟩
  | ok src =>
    refine Or.inr ⟨src, rfl, ?_⟩
    intro hanon
    cases hl : Comp.load src n pfx a with
    | error e => exact Or.inl ⟨e, rfl⟩
    | ok r =>
      obtain ⟨st, a'⟩ := r
      exact Or.inr ⟨st, a', rfl, text_output_wellformed text decl src n pfx a st a' hp hl hanon⟩

end Pepper.ParseComp.Props
