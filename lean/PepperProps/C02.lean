import PepperProofs.Sys
import PepperProofs.SysPil
import PepperModel.Generated.Tables
/-!
# C02 — system composition wires signals with the right orientation at any depth

"For every system program, each component or sub-system instance appears in the emitted specification under
its own instance-path prefix and shares no nucleotide with any other instance except through signals; for each
signal, every port bound to it is constrained equal to the signal when the stars on the binding and on the
port's declaration agree and reverse-complementary when they differ, through any depth of nested systems.
Each import resolves to the first matching file in the importing file's directory and then the include
directories in order, and instance arguments reach the instantiated template unchanged."

Code path: `PepperModel/Sys.lean` (`resolveImport`, `loadFile`, `loadStmts`, emission `Emit.sysStmts`);
specification: `PepperModel/Denote.lean` (`denoteFile` / `denoteSysStmts` / `bindPorts`: what a system *means*)
and `Pil.denote` (what the emitted statements mean to the designer).  Proofs: `PepperProofs/Sys.lean` (imports,
binding loop, prefixes, agreement of the signal tables) and `PepperProofs/SysPil.lean` (the emitted PIL of a whole
instance tree: frame lemma for `Pil.load`, additivity of `Pil.denote`, the component case from C01, the induction).

Hypotheses on the bundle of sources (`bundleOk tbl b`, decidable; all necessary):
* every component source has `UserNamesOk` and `CodesOk tbl` (the hypotheses of C01);
* in every system source, instance names contain no `-` and signal names are non-empty, do not end in `*` and
  contain no `-` (`sysNamesOk`): the instance path separator is `-`, so a signal `c-a` of a system and the sequence
  `a` of its instance `c` would be emitted under one name, and the PIL reader splits a trailing `*` off item names;
* `N` is a code of the reader's table (signal sequences are written `N…N`).

Template arguments are substituted into the source text *before* the model sees it (C13 models the
substitution); the bundle key `path@instance-path` selects the substituted source of that instance, and the
model checks the *number* of arguments.
-/
namespace Pepper.C02
open Pepper Pepper.Comp Pepper.Sys Pepper.SysProofs

/-! ### imports -/

/-- **first match**: for an arbitrary file-existence test `probe`, `load_file` searches `dir :: includes` in
    order; the outcome is decided by the FIRST directory `dirs[i]` in which `base.sys` or `base.comp` exists
    (no earlier directory `dirs[j]`, `j < i`, has either): `ambiguous` if both exist there, otherwise that file
    (with its kind and its directory as the new base path); and `missing` exactly when no directory has either -/
theorem import_first_match (probe : String → Bool) (base dir : String) (includes : List String) :
    let dirs := dir :: includes
    (∃ i, ∃ h : i < dirs.length,
        (∀ j (hj : j < i), sysAt probe base (dirs[j]'(Nat.lt_trans hj h)) = false ∧
                           compAt probe base (dirs[j]'(Nat.lt_trans hj h)) = false) ∧
        (sysAt probe base dirs[i] = true ∨ compAt probe base dirs[i] = true) ∧
        resolveImport probe base dir includes =
          (if sysAt probe base dirs[i] && compAt probe base dirs[i] then .error .ambiguous
           else if sysAt probe base dirs[i] then
             .ok (pathJoin dirs[i] base ++ ".sys", true, dirname (pathJoin dirs[i] base))
           else .ok (pathJoin dirs[i] base ++ ".comp", false, dirname (pathJoin dirs[i] base))))
    ∨ ((∀ d ∈ dirs, sysAt probe base d = false ∧ compAt probe base d = false) ∧
        (match resolveImport probe base dir includes with | .error .missing => True | _ => False)) :=
  go_spec probe base (dir :: includes)

/-! ### instance arguments -/

/-- **arity**: `load_file` succeeds only if the number of arguments equals the number of declared parameters of
    the file it resolved, and then it elaborates exactly the source stored under `resolved path ++ argKey`
    (`argKey` = `@instance-path`: the source with this instance's arguments substituted) -/
theorem arity_checked (b : Bundle) (fuel : Nat) (base : String) (args : Nat) (argKey pfx path : String)
    (includes : List String) (anon : Nat) (inst : Inst) (a' : Nat)
    (h : loadFile b fuel base args argKey pfx path includes anon = .ok (inst, a')) :
    ∃ fuel' fname issys newPath, fuel = fuel' + 1 ∧
      resolveImport (fun p => b.exists_.contains (normPath p)) base path includes = .ok (fname, issys, newPath) ∧
      ((∃ c st, b.files.lookup (normPath fname ++ argKey) = some (.comp c) ∧ issys = false ∧
          c.params.length = args ∧ Comp.load c args pfx anon = .ok (st, a') ∧ inst = .comp st) ∨
       (∃ s st, b.files.lookup (normPath fname ++ argKey) = some (.sys s) ∧ issys = true ∧
          s.params.length = args ∧
          loadStmts b fuel' includes s.stmts (.mk newPath s.name pfx [] [] [] [] [] []) anon = .ok (st, a') ∧
          inst = .sys (.mk st.path st.name st.pfx st.template st.signals st.lengths st.components s.inputs s.outputs))) := by
  cases fuel with
  | zero => obtain ⟨e, he⟩ := loadFile_zero b base args argKey pfx path includes anon; rw [he] at h; cases h
  | succ fuel' =>
    rw [loadFile_succ] at h
    cases hr : resolveImport (fun p => b.exists_.contains (normPath p)) base path includes with
    | error e => rw [hr] at h; cases h
    | ok x =>
      obtain ⟨fname, issys, newPath⟩ := x
      rw [hr] at h
      simp only at h
      refine ⟨fuel', fname, issys, newPath, rfl, rfl, ?_⟩
      cases hl : b.files.lookup (normPath fname ++ argKey) with
      | none => rw [hl] at h; cases h
      | some fs =>
        rw [hl] at h
        cases fs with
        | comp c =>
          left
          simp only at h
          cases issys with
          | true => cases h
          | false =>
            simp only [Bool.false_eq_true, if_false] at h
            cases hc : Comp.load c args pfx anon with
            | error e => rw [hc] at h; cases h
            | ok y =>
              obtain ⟨st, a1⟩ := y
              rw [hc] at h
              simp only [Except.ok.injEq, Prod.mk.injEq] at h
              obtain ⟨rfl, rfl⟩ := h
              exact ⟨c, st, rfl, rfl, (load_stars hc).1, hc, rfl⟩
        | sys s =>
          right
          simp only at h
          cases issys with
          | false => cases h
          | true =>
            simp only [Bool.not_true, Bool.false_eq_true, if_false] at h
            split at h
            · cases h
            · rename_i hp
              cases hs : loadStmts b fuel' includes s.stmts (.mk newPath s.name pfx [] [] [] [] [] []) anon with
              | error e => rw [hs] at h; cases h
              | ok y =>
                obtain ⟨st, a1⟩ := y
                rw [hs] at h
                simp only at h
                split at h
                · cases h
                · obtain ⟨p, n, pf, t, sg, l, c, i, o⟩ := st
                  simp only [Except.ok.injEq, Prod.mk.injEq] at h
                  obtain ⟨rfl, rfl⟩ := h
                  exact ⟨s, SysSt.mk p n pf t sg l c i o, rfl, rfl, by simpa using hp, hs, rfl⟩

/-! ### orientation of signal members -/

/-- **the compile path**: every entry `⟨port, comp, wc⟩` that binding an instance's ports adds to the signal table
    has `wc = (star on the binding ≠ star on the port's declaration)`, in the order of the ports -/
theorem signal_orientation_built (cname : String) (sigs sigs' : List (String × List SigEntry))
    (lens lens' : List (String × Nat)) (globs : List SigRef) (ports : List (Sys.Port × Bool × Nat × Bool))
    (h : bindSigs cname sigs lens globs ports = .ok (sigs', lens')) :
    sigs' = (List.zip globs ports).foldl
      (fun s gp => addSig s gp.1.name ⟨gp.2.1, cname, gp.1.star != gp.2.2.1⟩) sigs :=
  bindSigs_spec cname _ (sigs, lens) (sigs', lens') h

/-- `loadStmts` on a `component` statement is: resolve the template, load the instance under the prefix
    `pfx ++ name ++ "-"` (with the bundle key `@pfx name`), check the port counts, run the binding loop above over
    the instance's port list, continue -/
theorem component_statement (b : Bundle) (fuel : Nat) (includes : List String) (cname templ : String) (args : Nat)
    (ins outs : List SigRef) (r : List SStmt) (st : SysSt) (a : Nat) :
    loadStmts b fuel includes (.component cname templ args ins outs :: r) st a =
      match st.template.lookup templ with
      | none => .error .unknownTemplate
      | some tpath =>
        if (st.components.lookup cname).isSome then .error .dupComponent else
        match loadFile b fuel tpath args ("@" ++ st.pfx ++ cname) (st.pfx ++ cname ++ "-") st.path includes a with
        | .error e => .error e
        | .ok (inst, a') =>
          if ins.length != (instArity inst).1 || outs.length != (instArity inst).2 then .error .portCount else
          match bindSigs cname st.signals st.lengths (ins ++ outs) (instPorts inst) with
          | .error e => .error e
          | .ok (sg, l) => loadStmts b fuel includes r (addComp st sg l cname inst) a' :=
  loadStmts_component b fuel includes cname templ args ins outs r st a

/-- the "star on the declaration" in a component's port list is the star written in the `declare component`
    line, port by port, and the port object is the *unstarred* sequence of that name -/
theorem declaration_stars_component {src : Comp.Src} {args : Nat} {pfx : String} {anon : Nat} {st : Comp.St} {a : Nat}
    (h : Comp.load src args pfx anon = .ok (st, a)) :
    (compPorts st).map (fun p => (match p.1 with | .seq i _ => (i.name, i.rev) | .sig n => (n, false), p.2.1)) =
      (src.inputs ++ src.outputs).map (fun p => ((p.seq, false), p.star)) := by
  have := (load_stars h).2
  unfold compPorts
  rw [List.map_map]
  have h2 := congrArg (List.map (fun x : String × Bool => ((x.1, false), x.2))) this
  simp only [List.map_map] at h2
  have h3 : List.map ((fun x : String × Bool => ((x.1, false), x.2)) ∘ fun p : Comp.Port => (p.seq, p.star)) (src.inputs ++ src.outputs)
      = List.map (fun p => ((p.seq, false), p.star)) (src.inputs ++ src.outputs) := rfl
  rw [← h3, ← h2]
  apply List.map_congr_left
  intro i _
  rfl

/-- … and in a sub-system's port list it is the star written in its `declare system` line -/
theorem declaration_stars_system (sst : SysSt) :
    (sysPorts sst).map (fun p => (p.1, p.2.1)) =
      (sst.inputSeqs ++ sst.outputSeqs).map (fun r => (Sys.Port.sig r.name, r.star)) := by
  unfold sysPorts
  rw [List.map_map]
  rfl

/-- **emission**: the member of the `equal` statement written for an entry is the instance-path name of the port,
    followed by `*` exactly when `wc` -/
theorem equal_member_star (pfx : String) (e : SigEntry) :
    ((match e.port with
       | .seq i _ => pfx ++ e.comp ++ "-" ++ i.name
       | .sig n => pfx ++ e.comp ++ "-" ++ n) ++ (if e.wc then "*" else "")) =
    (match e.port with
       | .seq i _ => pfx ++ e.comp ++ "-" ++ i.name
       | .sig n => pfx ++ e.comp ++ "-" ++ n) ++ (if e.wc then "*" else "") ∧
    (∀ (s : Pil.Spec) (nm : String) (o : Pil.SeqObj), s.findSeq nm = some o →
      Pil.resolveItem s (nm ++ "*") = .ok (⟨nm, true⟩, o)) :=
  ⟨rfl, resolveItem_star⟩

/-- **what the designer reads**: under `Pil.denote` a member `name*` denotes the reverse complement of what `name`
    denotes (and `name` denotes the object's nucleotides) -/
theorem pil_member_region (o : Pil.SeqObj) (star : Bool) :
    Pil.nucsOfBases (Pil.basesOfView o star) =
      if star then rc (Pil.nucsOfBases o.bases) else Pil.nucsOfBases o.bases :=
  pil_star_region o star

/-- **what the source means**: `Denote.bindPorts` contributes, for a port with nucleotides `X`, the region `X` when
    the stars on binding and declaration agree and `rc X` when they differ — the same rule -/
theorem denote_member_region (acc : Denote.SigAcc) (globs : List SigRef) (ports : List (List Nuc × Bool)) :
    Denote.bindPorts acc globs ports = (List.zip globs ports).foldlM bpStep acc ∧
    ∀ a a' gp, bpStep a gp = .ok a' →
      let region := if gp.1.star != gp.2.2 then rc gp.2.1 else gp.2.1
      a'.members = a.members ++ [(gp.1.name, [region])] ∨
      a'.members = a.members.map (fun (k, v) => if k == gp.1.name then (k, v ++ [region]) else (k, v)) :=
  ⟨bindPorts_eq acc globs ports, bpStep_region⟩

/-- **through nesting**: orientations compose by xor (`rc` is an involution): a port reached through an outer
    binding with parity `a` of a sub-system signal to which it is bound with parity `b` is constrained to the
    outer signal with parity `a xor b` -/
theorem signal_orientation_nested (a b : Bool) (x : List Nuc) :
    (if a then rc (if b then rc x else x) else (if b then rc x else x)) = if (a != b) then rc x else x :=
  rc_parity a b x

/-! ### instances -/

/-- **prefixes**: in the design `denoteFile` assigns to an instance loaded under prefix `pfx` (a component, or a
    system with everything below it), every domain, sequence, strand and structure name and every nucleotide —
    including those in `equals` — carries the prefix `pfx`; so do the nucleotides of its ports -/
theorem instance_prefixed (b : Bundle) (fuel : Nat) (base : String) (args : Nat) (argKey pfx path : String)
    (includes : List String) (anon : Nat) (d : Design) (ports : List (List Nuc × Bool)) (a : Nat)
    (h : Denote.denoteFile b fuel base args argKey pfx path includes anon = .ok (d, ports, a)) :
    DesignP (HasPfx pfx) d ∧ ∀ p ∈ ports, NucsP (HasPfx pfx) p.1 :=
  denoteFile_P b fuel base args argKey pfx path includes anon d ports a h

/-- **disjointness**: two instances at the same level, `pfx ++ c1 ++ "-"` and `pfx ++ c2 ++ "-"` with different
    instance names without dashes, share no nucleotide (no `Var`): nothing carries both prefixes -/
theorem instances_disjoint (b : Bundle) (fuel : Nat) (pfx c1 c2 : String) (h1 : '-' ∉ c1.toList) (h2 : '-' ∉ c2.toList)
    (hne : c1 ≠ c2) (base1 base2 : String) (args1 args2 : Nat) (k1 k2 path : String) (includes : List String)
    (an1 an2 : Nat) (d1 d2 : Design) (p1 p2 : List (List Nuc × Bool)) (a1 a2 : Nat)
    (hd1 : Denote.denoteFile b fuel base1 args1 k1 (pfx ++ c1 ++ "-") path includes an1 = .ok (d1, p1, a1))
    (hd2 : Denote.denoteFile b fuel base2 args2 k2 (pfx ++ c2 ++ "-") path includes an2 = .ok (d2, p2, a2)) :
    ∀ v ∈ designVars d1, v ∉ designVars d2 := by
  intro v hv1 hv2
  have q1 := designVars_P (instance_prefixed b fuel _ _ _ _ _ _ _ _ _ _ hd1).1 v hv1
  have q2 := designVars_P (instance_prefixed b fuel _ _ _ _ _ _ _ _ _ _ hd2).1 v hv2
  exact sibling_prefixes_disjoint pfx c1 c2 h1 h2 hne v.dom ⟨q1, q2⟩

/-- **only signals connect**: the design of a system is the designs of its instances, appended in order, followed
    by one fresh domain `pfx ++ sig` per signal and one `equals` entry per signal relating that domain to the
    regions of the bound ports; the instances' own designs are not touched -/
theorem system_design_shape (b : Bundle) (fuel : Nat) (base : String) (args : Nat) (argKey pfx path : String)
    (includes : List String) (anon : Nat) (d : Design) (ports : List (List Nuc × Bool)) (a : Nat)
    (fname newPath : String) (s : SSrc)
    (hr : resolveImport (fun p => b.exists_.contains (normPath p)) base path includes = .ok (fname, true, newPath))
    (hl : b.files.lookup (normPath fname ++ argKey) = some (.sys s))
    (h : Denote.denoteFile b (fuel + 1) base args argKey pfx path includes anon = .ok (d, ports, a)) :
    ∃ d0 sa, Denote.denoteSysStmts b fuel includes newPath pfx s.stmts [] Design.empty {} anon = .ok (d0, sa, a) ∧
      d = Denote.Design.append d0
        { Design.empty with
          domains := sa.order.map (fun n => (pfx ++ n, List.replicate ((sa.len.lookup n).getD 0) 'N'))
          seqs := sa.order.map (fun n => (pfx ++ n, fwd (pfx ++ n) ((sa.len.lookup n).getD 0)))
          equals := sa.order.map (fun n => fwd (pfx ++ n) ((sa.len.lookup n).getD 0) :: (sa.members.lookup n).getD []) } ∧
      ports = (s.inputs ++ s.outputs).map (fun r => (fwd (pfx ++ r.name) ((sa.len.lookup r.name).getD 0), r.star)) := by
  rw [denoteFile_succ, hr] at h
  simp only [hl] at h
  split at h
  · cases h
  · cases hs : Denote.denoteSysStmts b fuel includes newPath pfx s.stmts [] Design.empty {} anon with
    | error e => rw [hs] at h; cases h
    | ok y =>
      obtain ⟨d0, sa, a1⟩ := y
      rw [hs] at h
      simp only at h
      split at h
      · cases h
      · simp only [Except.ok.injEq, Prod.mk.injEq] at h
        obtain ⟨rfl, rfl, rfl⟩ := h
        exact ⟨d0, sa, rfl, rfl, rfl⟩

/-! ### the whole tree -/

/-- **orientation, for whole systems**: for every system the compile path loads (any depth below it), the
    specification `Denote` processes the same statements successfully and the two signal tables agree
    (`TablesAgree`): the same signals in the same order with the same lengths, and for every signal the
    specification's member regions are, entry by entry, `entryRegion` of the compile path's entries — the
    nucleotides of the bound port (a component's unstarred sequence under the instance prefix, or a sub-system's
    signal domain), reverse-complemented exactly when the entry's flag `wc = (binding star ≠ declaration star)` is
    set.  The only hypothesis on the bundle: its component sources have `UserNamesOk` (the component-level fact is
    discharged by the C01 machinery, `SysProofs.compAccept`) -/
theorem signal_orientation (b : Bundle) (hb : BundleComps (fun c => UserNamesOk c = true) b) (fuel : Nat)
    (includes : List String) (stmts : List SStmt)
    (newPath name pfx : String) (anon : Nat) (st : SysSt) (a1 : Nat)
    (hs : loadStmts b fuel includes stmts (.mk newPath name pfx [] [] [] [] [] []) anon = .ok (st, a1)) :
    ∃ d1 sa, Denote.denoteSysStmts b fuel includes newPath pfx stmts [] Design.empty {} anon = .ok (d1, sa, a1) ∧
      sa.len = st.lengths ∧ sa.order = st.lengths.map (·.1) ∧ st.signals.map (·.1) = st.lengths.map (·.1) ∧
      sa.members = st.signals.map (fun x => (x.1, x.2.map (entryRegion pfx ((st.lengths.lookup x.1).getD 0)))) := by
  obtain ⟨d1, sa, hd, ht⟩ := sys_tables_agree compAccept b hb fuel includes stmts newPath name pfx anon st a1 hs
  exact ⟨d1, sa, hd, ht.len, ht.order, ht.keys, ht.members⟩

/-- the region of an entry, spelled out: `rc X` iff `wc`, where `X` is what the port denotes unstarred -/
theorem entry_region_rule (pfx : String) (len : Nat) (e : SigEntry) :
    entryRegion pfx len e = (if e.wc then rc (entryNucs pfx len e) else entryNucs pfx len e) ∧
    entryNucs pfx len e = (match e.port with
      | .seq _ bases => basesNucs (pfx ++ e.comp ++ "-") bases
      | .sig n => fwd (pfx ++ e.comp ++ "-" ++ n) len) :=
  ⟨rfl, rfl⟩

/-- the component sources of a bundle satisfying `bundleOk` have `UserNamesOk` -/
theorem bundleOk_comps {tbl : CodeTable} {b : Bundle} (hb : bundleOk tbl b = true) :
    BundleComps (fun c => UserNamesOk c = true) b :=
  fun _ _ hl => (bundleOk_comp hb hl).1

/-- **system_preserves_design** (full).  For every bundle satisfying `bundleOk tbl` and every instance tree
    `load_file` returns — a component, a system, a system of systems, to any depth: reading the emitted PIL of the
    tree back succeeds; the specification `denoteFile` accepts the same sources, consuming the same
    anonymous-sequence numbers; and the design the PIL denotes equals the design the sources denote in domains,
    sequences, strands, structures and `equal` constraints (`DesignEquiv`: plain equality of these fields, in order;
    kinetic lines carry no constraint and are compared per component by C01).  In particular every instance appears
    under its instance-path prefix, nothing is shared between instances except through the `equal` constraint of a
    signal, and each member of that constraint is the port's region, reverse-complemented exactly when the stars of
    binding and declaration differ (`signal_orientation`, `instance_prefixed`, `system_design_shape` describe `d`). -/
theorem system_preserves_design (tbl : CodeTable) (b : Bundle) (fuel : Nat) (base : String) (args : Nat)
    (argKey pfx path : String) (includes : List String) (anon : Nat) (inst : Inst) (a' : Nat)
    (h : loadFile b fuel base args argKey pfx path includes anon = .ok (inst, a'))
    (hb : bundleOk tbl b = true) :
    ∃ spec d ports, Pil.load tbl (Emit.instStmts inst) {} = .ok spec ∧
      Denote.denoteFile b fuel base args argKey pfx path includes anon = .ok (d, ports, a') ∧
      DesignEquiv (Pil.denote spec) d := by
  obtain ⟨d, ports, hd, _, hI⟩ := tree_full tbl b hb fuel base args argKey pfx path includes anon inst a' h
  obtain ⟨spec, hl, he, _⟩ := hI.load
  exact ⟨spec, d, ports, hl, hd, he⟩

/-- the compile path and the specification also agree on the ports of every instance — what each port denotes
    (`portNucs`), the star of its declaration, its length, whether it is a dummy — and every name of the design
    carries the instance prefix; only `UserNamesOk` of the component sources is needed for this half -/
theorem system_ports_agree (b : Bundle) (hb : BundleComps (fun c => UserNamesOk c = true) b) (fuel : Nat) (base : String)
    (args : Nat) (argKey pfx path : String) (includes : List String) (anon : Nat) (inst : Inst) (a' : Nat)
    (h : loadFile b fuel base args argKey pfx path includes anon = .ok (inst, a')) :
    ∃ d ports, Denote.denoteFile b fuel base args argKey pfx path includes anon = .ok (d, ports, a') ∧
      PortsAgree pfx (instPorts inst) ports ∧ DesignP (HasPfx pfx) d :=
  let ⟨d, ports, hd, hp⟩ := wiring_agrees compAccept b hb fuel base args argKey pfx path includes anon inst a' h
  ⟨d, ports, hd, hp, (denoteFile_P b fuel base args argKey pfx path includes anon d ports a' hd).1⟩

/-- the frame lemma behind the composition: statements all of whose names carry a prefix no object of `s0` carries
    load on top of `s0` as they load alone, and the result is the append of the two specifications -/
theorem pil_load_frame (tbl : CodeTable) (q : String) (s0 spec : Pil.Spec) (ys : List Pil.Stmt)
    (hfree : SpecFree (HasPfx q) s0) (hnames : ∀ st ∈ ys, ∀ n ∈ stmtNames st, HasPfx q n)
    (h : Pil.load tbl ys {} = .ok spec) : Pil.load tbl ys s0 = .ok (specAppend s0 spec) := by
  have := load_frame tbl hfree ys {} spec hnames h
  rwa [specAppend_nil_right] at this

/-- additivity of `Pil.denote` over independent parts -/
theorem pil_denote_additive (a b : Pil.Spec) (ha : EqClosed a)
    (hb : ∀ its ∈ b.equals, ∀ i ∈ its, a.findSeq i.name = none) :
    DesignEquiv (Pil.denote (specAppend a b)) (Denote.Design.append (Pil.denote a) (Pil.denote b)) :=
  denote_append_free a b ha hb

/-! ### non-vacuity -/

/-- binding `g1 : s0* -> …` to a port declared `a` (no star): the entry has `wc = true`, a second instance
    binding `s0*` to a port declared `b*` gets `wc = false`, and both go to the same signal, in order -/
example :
    (match bindSigs "g1" [] [] [⟨"s0", true⟩] [(Sys.Port.seq ⟨"a", false, 4, false⟩ [], false, 4, false)] with
     | .ok (sg, l) =>
       (match bindSigs "g2" sg l [⟨"s0", true⟩] [(Sys.Port.seq ⟨"b", false, 4, false⟩ [], true, 4, false)] with
        | .ok (sg', _) => sg'.map (fun x => (x.1, x.2.map (fun e => (e.comp, e.wc)))) == [("s0", [("g1", true), ("g2", false)])]
        | .error _ => false)
     | .error _ => false) = true := by decide

/-- a length mismatch between two ports of one signal is rejected -/
example :
    (match bindSigs "g2" [("s0", [])] [("s0", 4)] [⟨"s0", false⟩] [(Sys.Port.sig "x", false, 5, false)] with
     | .error .signalLength => true | _ => false) = true := by decide

/-- reverse complement, concretely -/
example : rc [⟨⟨"g1-a", 0⟩, false⟩, ⟨⟨"g1-a", 1⟩, false⟩] = [⟨⟨"g1-a", 1⟩, true⟩, ⟨⟨"g1-a", 0⟩, true⟩] := by decide

/-- the specification side on the same two bindings: region = `rc X` for the first, `X` for the second -/
example :
    (match Denote.bindPorts {} [⟨"s0", true⟩, ⟨"s0", true⟩]
        [([⟨⟨"g1-a", 0⟩, false⟩, ⟨⟨"g1-a", 1⟩, false⟩], false), ([⟨⟨"g2-b", 0⟩, false⟩, ⟨⟨"g2-b", 1⟩, false⟩], true)] with
     | .ok sa => sa.members == [("s0", [[⟨⟨"g1-a", 1⟩, true⟩, ⟨⟨"g1-a", 0⟩, true⟩], [⟨⟨"g2-b", 0⟩, false⟩, ⟨⟨"g2-b", 1⟩, false⟩]])]
     | .error _ => false) = true := by decide


/-- the region of a starred entry of signal `s0` (length 2) bound to port `a` of instance `g1` -/
example : entryRegion "" 2 ⟨.seq ⟨"a", false, 2, false⟩ [⟨"a", false, 2⟩], "g1", true⟩
    = [⟨⟨"g1-a", 1⟩, true⟩, ⟨⟨"g1-a", 0⟩, true⟩] := by decide

/-- … and of an unstarred entry pointing at signal `x` of the sub-system instance `g2` -/
example : entryRegion "top-" 2 ⟨.sig "x", "g2", false⟩ = [⟨⟨"top-g2-x", 0⟩, false⟩, ⟨⟨"top-g2-x", 1⟩, false⟩] := by decide


/-- a two-instance system: `g1 : s0 -> s1`, `g2 : s1* -> s2` of a gate `a -> b*` -/
def exGate : Comp.Src :=
  { name := "gate", params := [], inputs := [⟨"a", false, none⟩], outputs := [⟨"b", true, none⟩],
    stmts := [.seq "a" [.nuc "4N".toList] none, .seq "b" [.nuc "2S 2W".toList] none,
              .strand false "X" [.ref "a" false, .ref "b" true] none] }
def exSys : SSrc :=
  { name := "top", params := [], inputs := [], outputs := [],
    stmts := [.imports [("gate", none)],
              .component "g1" "gate" 0 [⟨"s0", false⟩] [⟨"s1", false⟩],
              .component "g2" "gate" 0 [⟨"s1", true⟩] [⟨"s2", false⟩]] }
def exBundle : Bundle :=
  { files := [("top.sys@", .sys exSys), ("gate.comp@g1", .comp exGate), ("gate.comp@g2", .comp exGate)],
    exists_ := ["top.sys", "gate.comp"] }

/-- the hypothesis of `system_preserves_design` holds for it, with the live PIL reader table -/
example : bundleOk Pepper.Generated.pilTable exBundle = true := by decide +kernel

/-- the instance tree `loadFile exBundle 4 "top" 0 "@" "" "." [] 0` returns (`#eval`; the kernel cannot unfold
    `String.splitOn` inside `normPath`, so the tree is rebuilt here from its parts: the two component loads and the
    two binding loops) -/
def exTree : Option Inst := do
  let (g1, a1) ← (Comp.load exGate 0 "g1-" 0).toOption
  let (g2, _) ← (Comp.load exGate 0 "g2-" a1).toOption
  let (sg1, l1) ← (bindSigs "g1" [] [] [⟨"s0", false⟩, ⟨"s1", false⟩] (compPorts g1)).toOption
  let (sg2, l2) ← (bindSigs "g2" sg1 l1 [⟨"s1", true⟩, ⟨"s2", false⟩] (compPorts g2)).toOption
  pure (.sys (.mk "." "top" "" [("gate", "gate")] sg2 l2 [("g1", .comp g1), ("g2", .comp g2)] [] []))

/-- its emitted statements: instances under their prefixes, then one sequence and one `equal` line per signal; the
    output port is declared `b*`, so it is bound with a star to the unstarred `s1`, and `g2`'s input, bound to `s1*`,
    as well -/
example : exTree.map Emit.instStmts =
    some [.seq "g1-a" "NNNN".toList, .seq "g1-b" "SSWW".toList, .strand "g1-X" false ["g1-a", "g1-b*"],
          .seq "g2-a" "NNNN".toList, .seq "g2-b" "SSWW".toList, .strand "g2-X" false ["g2-a", "g2-b*"],
          .seq "s0" "NNNN".toList, .equal ["s0", "g1-a"],
          .seq "s1" "NNNN".toList, .equal ["s1", "g1-b*", "g2-a*"],
          .seq "s2" "NNNN".toList, .equal ["s2", "g2-b*"]] := by decide +kernel

/-- reading them back succeeds, and the `equal` constraint of `s1` relates the signal domain to the reverse
    complements of `g1-b` and `g2-a` -/
example : ((exTree.bind (fun i => (Pil.load Pepper.Generated.pilTable (Emit.instStmts i) {}).toOption)).map
      (fun spec => ((Pil.denote spec).equals.drop 1).take 1)) =
    some [[fwd "s1" 4, rc (fwd "g1-b" 4), rc (fwd "g2-a" 4)]] := by decide +kernel

end Pepper.C02
