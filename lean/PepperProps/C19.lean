import PepperProofs.Ssm
/-!
# C19 — bundled spuriousSSM returns a sequence obeying its constraints, and stops

Model: `PepperModel/Ssm.lean` (`constrain`, `constrainSingleFast`, `mutate`, `testConsistency`,
`freeLocs`, `effectiveBmax`, the search loop `run`/`runList`, the whole of `main` after the loader as
`program`), source `SpuriousDesign/spuriousSSM.c`.  The random draws of an iteration (mutated index,
new base) and the outcome of the floating-point score comparison are *inputs* (`Event`); the score
function is a parameter.

Specification: `Good t S` — `S` has the input length, its blanks are the template's, every base lies
in the set of its template code, every `eq` and every `wc` entry is obeyed.  `Contract t`
(`contractB t = true`) is the documented input contract.

What is *not* a statement about this model: memory safety / undefined behaviour of the C text and
the ≈600 lines of floating-point scoring code (covered by sanitizer runs of the real binary and by
taking the comparison as an input), and the wall-clock option `tmax`.
-/
namespace Pepper.C19
open Pepper.Ssm

/-- `contractB` is the executable form of the documented contract. -/
theorem contract_of_contractB {t : Triple} (h : contractB t = true) : Contract t := of_decide_eq_true h

/-- (a) After `constrain`, every constraint holds — for *any* start sequence of the right length that
    is blank where the template is and holds an allowed base at each position `constrain` copies
    from (the lowest position of a class whose partner class lies above it, `isClassRep`); all other
    positions of the start sequence are arbitrary.  This covers the random initial sequence, a
    `sequence=` file, and the final `constrain` call. -/
theorem constrain_good {t : Triple} (hc : contractB t = true) {S0 : Seq} (hs : StartOK t S0) :
    Good t (constrain t S0) :=
  constrain_good' (contract_of_contractB hc).toF hs

/-- `randbasec` only returns bases of the code's set. -/
theorem randbase_allowed {t : Triple} (hc : contractB t = true) {i : Nat} (hi : i ∈ freeLocs t) {b : Char}
    (hb : b ∈ choices (t.stAt i)) : memCode b (t.stAt i) = true :=
  (validEv_of_validEvent (contract_of_contractB hc).toF (e := ⟨i, b, 0⟩)
    (by simp [validEvent, hi, hb])).2

/-- (b) A mutation at a free location to a base allowed by the template, followed by
    `constrain_single_fast` (which only rewrites positions `j > i`), preserves every constraint.
    This is the theorem of DESIGN appendix C, transported to the list model. -/
theorem mutate_preserves_good {t : Triple} (hc : contractB t = true) {S : Seq} (g : Good t S)
    {i : Nat} (hi : i ∈ freeLocs t) {b : Char} (hb : memCode b (t.stAt i) = true) :
    Good t (mutate t S i b) :=
  mutate_good (contract_of_contractB hc).toF g (freeF_of_mem_freeLocs hi) hb

/-- (c) The search loop preserves the invariant: for every stream of legal random choices and every
    sequence of comparison outcomes (accepted moves keep the mutated sequence, rejected moves restore
    the previous one), every intermediate sequence and the sequence at loop exit are `Good`. -/
theorem loop_preserves_good {t : Triple} (hc : contractB t = true) (p : Params) (nfree : Nat)
    (s : State) (g : Good t s.S) (es : List Event) (hv : ∀ e ∈ es, validEvent t e = true) :
    Good t (run t p nfree s es).S ∧ ∀ s' ∈ runList t p nfree s es, Good t s'.S := by
  have c := (contract_of_contractB hc).toF
  have hv' : ∀ e ∈ es, ValidEv t e := fun e he => validEv_of_validEvent c (hv e he)
  exact ⟨run_good c p nfree es s g hv', runList_good c p nfree es s g hv'⟩

/-- (d) The program's own final self-check accepts every `Good` sequence, and such a sequence has
    the input length (so exactly `N` characters are printed). -/
theorem final_check_passes {t : Triple} (hc : contractB t = true) {S : Seq} (g : Good t S) :
    testConsistency t S = true ∧ S.length = t.N :=
  ⟨testConsistency_of_good (contract_of_contractB hc) g, g.1⟩

/-- (a)–(d) together, for `main` after the loader: on a consistent triple, from any admissible start
    sequence, with any stopping options, any legal random choices and any comparison outcomes, neither
    self-check aborts and the printed sequence is `Good` and has length `N`. -/
theorem program_output_good {t : Triple} (hc : contractB t = true) (o : Opts) {start : Seq}
    (hs : StartOK t start) (es : List Event) (hv : ∀ e ∈ es, validEvent t e = true) :
    ∃ out, program t o start es = some out ∧ Good t out ∧ out.length = t.N := by
  have c := contract_of_contractB hc
  have g0 := constrain_good hc hs
  have g1 := (loop_preserves_good hc ⟨effectiveBmax o t, o.imax⟩ (freeLocs t).length
    ⟨constrain t start, 0, 0⟩ g0 es hv).1
  have g2 := constrain_good hc (startOK_of_good c g1)
  refine ⟨_, ?_, g2, g2.1⟩
  unfold program
  simp only [testConsistency_of_good c g0, testConsistency_of_good c g2, Bool.not_true,
    Bool.false_eq_true, if_false]

/-- (e, counting half) With `imax = 0` and `bmax > 0` the number of executed iterations is at most
    `bmax · (k + 1)`, `k` the number of strictly improving events of the stream: an improvement
    resets `bored`, every other iteration increments it, the loop runs only while `bored < bmax`.
    No assumption on the triple, the events or the scores. -/
theorem iteration_count (t : Triple) {bmax : Nat} (hb : 0 < bmax) (nfree : Nat) (S : Seq) (steps : Nat)
    (es : List Event) :
    (runList t ⟨bmax, 0⟩ nfree ⟨S, 0, steps⟩ es).length ≤ bmax * (improvements es + 1) := by
  have := runList_length_le t hb nfree es ⟨S, 0, steps⟩ (Nat.zero_le _)
  simpa using this

/-- (e, default rule) When neither `bmax` nor `imax` is given (and no `tmax`), the loop starts with
    `bmax = bmult · nq + 1 ≥ 1`, with or without `score=automatic`: some stopping rule is always
    active. -/
theorem default_bmax_pos (o : Opts) (t : Triple) (h1 : o.bmax = none) (h2 : o.imax = 0) :
    effectiveBmax o t = o.bmult * nq t + 1 ∧ 0 < effectiveBmax o t := by
  rw [default_bmax o t h1 h2]; exact ⟨rfl, Nat.succ_pos _⟩

/-- With `imax > 0` at most `imax` iterations are made. -/
theorem imax_bound (t : Triple) (p : Params) (hi : 0 < p.imax) (nfree : Nat) (S : Seq) (es : List Event) :
    (runList t p nfree ⟨S, 0, 0⟩ es).length ≤ p.imax := by
  have := runList_length_le_imax t p hi nfree es ⟨S, 0, 0⟩ (Nat.zero_le _)
  simpa using this

/-- (e) Termination at full strength.  Let the comparison outcomes come from *any* score function
    `score` of the sequence into *any* strictly ordered set (`lt` irreflexive and transitive; `cmp < 0`
    means strictly smaller, `cmp = 0` means equal — `Scored`).  Then on a consistent triple, from a
    `Good` sequence, with `imax = 0` and `bmax > 0`, whatever stream of legal random choices is
    supplied and however long it is, the loop executes at most `bmax · 5^N` iterations: the current
    score never rises, strict improvements visit pairwise distinct scores, and there are at most `5^N`
    sequences of length `N` over blank/A/C/G/T. -/
theorem terminates {α : Type} (lt : α → α → Prop) (irr : ∀ a, ¬ lt a a)
    (tr : ∀ a b c, lt a b → lt b c → lt a c) (score : Seq → α)
    {t : Triple} (hc : contractB t = true) {bmax : Nat} (hb : 0 < bmax) (nfree : Nat)
    (S : Seq) (g : Good t S) (steps : Nat) (es : List Event) (hv : ∀ e ∈ es, validEvent t e = true)
    (hsc : Scored lt score t ⟨bmax, 0⟩ nfree ⟨S, 0, steps⟩ es) :
    (runList t ⟨bmax, 0⟩ nfree ⟨S, 0, steps⟩ es).length ≤ bmax * 5 ^ t.N := by
  have c := (contract_of_contractB hc).toF
  exact runList_bound lt irr tr score c hb nfree es ⟨S, 0, steps⟩ g rfl
    (fun e he => validEv_of_validEvent c (hv e he)) hsc

/-- (e) "It never runs forever": under the assumptions of `terminates`, as soon as more than
    `bmax · 5^N` random choices are available the loop has exited by its own stopping rule (the `while`
    condition is false in the final state). -/
theorem loop_exits {α : Type} (lt : α → α → Prop) (irr : ∀ a, ¬ lt a a)
    (tr : ∀ a b c, lt a b → lt b c → lt a c) (score : Seq → α)
    {t : Triple} (hc : contractB t = true) {bmax : Nat} (hb : 0 < bmax) (nfree : Nat)
    (S : Seq) (g : Good t S) (steps : Nat) (es : List Event) (hv : ∀ e ∈ es, validEvent t e = true)
    (hsc : Scored lt score t ⟨bmax, 0⟩ nfree ⟨S, 0, steps⟩ es) (hlen : bmax * 5 ^ t.N < es.length) :
    running ⟨bmax, 0⟩ nfree (run t ⟨bmax, 0⟩ nfree ⟨S, 0, steps⟩ es) = false := by
  apply run_stopped
  have := terminates lt irr tr score hc hb nfree S g steps es hv hsc
  omega

/-- (e) The same for the program as started without any limit option: the stopping rule that is then
    in force (`default_bmax_pos`) bounds the search by `(bmult · nq + 1) · 5^N` iterations. -/
theorem terminates_default {α : Type} (lt : α → α → Prop) (irr : ∀ a, ¬ lt a a)
    (tr : ∀ a b c, lt a b → lt b c → lt a c) (score : Seq → α)
    {t : Triple} (hc : contractB t = true) (o : Opts) (h1 : o.bmax = none) (h2 : o.imax = 0)
    {start : Seq} (hs : StartOK t start) (es : List Event) (hv : ∀ e ∈ es, validEvent t e = true)
    (hsc : Scored lt score t ⟨effectiveBmax o t, 0⟩ (freeLocs t).length ⟨constrain t start, 0, 0⟩ es) :
    (runList t ⟨effectiveBmax o t, o.imax⟩ (freeLocs t).length ⟨constrain t start, 0, 0⟩ es).length
      ≤ (o.bmult * nq t + 1) * 5 ^ t.N := by
  have hb := default_bmax_pos o t h1 h2
  rw [h2]
  have := terminates lt irr tr score hc hb.2 (freeLocs t).length (constrain t start)
    (constrain_good hc hs) 0 es hv hsc
  rw [hb.1] at this ⊢
  exact this

/-! ### non-vacuity -/

/-- two strands, the second the reverse complement of the first: `NNSW WSNN` -/
abbrev ex1 : Triple :=
  { st := "NNSW WSNN".toList, eq := [1, 2, 3, 4, 0, 6, 7, 8, 9], wc := [9, 8, 7, 6, -1, 4, 3, 2, 1] }

/-- three strands (`NSW NSW  WSN`, two complexes): the second equals the first, the third is the
    reverse complement of both -/
abbrev ex2 : Triple :=
  { st := "NSW NSW  WSN".toList, eq := [1, 2, 3, 0, 1, 2, 3, 0, 0, 10, 11, 12],
    wc := [12, 11, 10, -1, 12, 11, 10, -1, -1, 3, 2, 1] }

/-- the contract is satisfiable -/
example : contractB ex1 = true := by decide
example : contractB ex2 = true := by decide

/-- … and not trivially true: the reverse complement of `NNSW` is `WSNN`, not `NNSW` -/
example : contractB { ex1 with st := "NNSW NNSW".toList } = false := by decide

/-- … and a self-complementary class is refused -/
example : contractB { st := "N".toList, eq := [1], wc := [1] } = false := by decide

/-- the free locations of the examples (only the lowest member of each class / class pair) -/
example : freeLocs ex1 = [0, 1, 2, 3] ∧ freeLocs ex2 = [0, 1, 2] ∧ nq ex2 = 3 := by decide

/-- `constrain` repairs an arbitrary start sequence from the representatives (`ex2`: positions 4-6 and
    9-11 of the start are ignored) -/
example : constrain ex2 "ACT TTT  TTT".toList = "ACT ACT  AGT".toList := by decide
example : StartOK ex2 "ACT TTT  TTT".toList ∧ ¬ Good ex2 "ACT TTT  TTT".toList ∧
    Good ex2 "ACT ACT  AGT".toList := by decide

/-- a concrete run (the trace of the real binary with seed 5, `bmax=5`): a rejected move restores the
    sequence, equal moves are kept, `bored` counts to `bmax` and the loop stops although a sixth event
    is offered -/
example : (runList ex1 ⟨5, 0⟩ 4 ⟨"AGCA TGCT".toList, 0, 0⟩
      [⟨3, 'T', 1⟩, ⟨1, 'A', 0⟩, ⟨3, 'T', 0⟩, ⟨0, 'C', 0⟩, ⟨2, 'G', 0⟩, ⟨2, 'C', 0⟩]).map
      (fun s => (String.ofList s.S, s.bored)) =
    [("AGCA TGCT", 1), ("AACA TGTT", 2), ("AACT AGTT", 3), ("CACT AGTG", 4), ("CAGT ACTG", 5)] := by
  decide

/-- the whole program on that input prints a `Good` sequence -/
example : program ex1 { bmax := some 5 } "AGCA TGCT".toList
      [⟨3, 'T', 1⟩, ⟨1, 'A', 0⟩, ⟨3, 'T', 0⟩, ⟨0, 'C', 0⟩, ⟨2, 'G', 0⟩, ⟨2, 'C', 0⟩] =
    some "CAGT ACTG".toList ∧ Good ex1 "CAGT ACTG".toList := by decide

/-- an improvement resets `bored` -/
example : (runList ex1 ⟨2, 0⟩ 4 ⟨"AGCA TGCT".toList, 0, 0⟩
      [⟨3, 'T', 0⟩, ⟨1, 'A', -1⟩, ⟨3, 'A', 1⟩, ⟨0, 'C', 1⟩, ⟨2, 'G', 0⟩]).map (·.bored) = [1, 0, 1, 2] := by
  decide

/-- the default stopping rule of the examples -/
example : effectiveBmax {} ex1 = 49 ∧ effectiveBmax { automatic := true, bmult := 1 } ex2 = 4 ∧
    effectiveBmax { imax := 50 } ex1 = 0 := by decide

end Pepper.C19
