import PepperProofs.ConstraintGenSeeds
/-!
# C04 — designer constraint arrays are the exact closure of the specification

Model: `PepperModel/ConstraintGen.lean` (`getConstraints`), source `design/constraint_load.py`.
-/
namespace Pepper.C04
open Pepper Pepper.Pil Pepper.ConstraintGen Pepper.LinkSpec Pepper.Closure

/-- **Exactness over the seeded graph.**  When `get_constraints` returns arrays, then with respect to the link
    graph it seeded (`build s`): the arrays have one common length `n ≤ P`, the last index is a position;
    an index that is not a position holds `None` in all three arrays; for a position `i`, `eq[i]` is the lowest
    position at even parity distance from `i`, `wc[i]` the lowest position at odd parity distance (or `None` if
    there is none), and `st[i]` is a code whose set of bases is exactly the set of bases allowed by every
    template at even distance and, complemented, by every template at odd distance; no node is at odd
    distance from itself. -/
theorem arrays_exact_graph {tbl : CodeTable} (hl : tbl.lawful = true) {mode : Layout} {spec : Spec}
    (ok : SpecCodes tbl spec) {s : Seeds} {c : Cons} (hs : seeds mode spec = .ok s) (hb : build s = .ok c)
    {a : Arrays} (ha : getConstraintsT tbl mode spec = .ok a) : GraphExact tbl c s.P a := by
  obtain ⟨_, h | h | ⟨a', h⟩⟩ := getConstraintsT_spec hl ok hs hb
  · exact absurd (h.1.symm.trans ha) (by simp)
  · exact absurd (h.1.symm.trans ha) (by simp)
  · have : a' = a := by
      have := h.1.symm.trans ha
      simpa using this
    exact this ▸ h.2.2

end Pepper.C04
