import PepperProofs.ConstraintGenTotalT
/-!
# C04 — designer constraint arrays are the exact closure of the specification

Model: `PepperModel/ConstraintGen.lean` (`getConstraints` = `Convert.get_constraints`, both layouts), source
`design/constraint_load.py`.  Specification: `LinkSpec` over `Pil.denote spec` — `ParityReach` / `NucReach` (parity
reachability in the link graph of the design: even link per pair of positions identified by an `equal` line, odd
link per base pair, parity adjusted by the `comp` flags), `okVar` (a base is allowed by the template of a position).

Status.  Proved at full strength: exactness of the arrays with respect to the link graph the function seeds
(`arrays_exact_graph`, both layouts), the soundness half of the identification of that graph with the semantic link
graph (`arrays_sound`, both layouts) and `layout_exact_strand`.  The completeness half (every semantic link and every
pair of nodes with the same nucleotide is connected in the seeded graph) and the layout of the structure mode are stated (`arrays_exact_statement`) and validated by correspondence + the independent oracle.
-/
namespace Pepper.C04
open Pepper Pepper.Pil Pepper.ConstraintGen Pepper.LinkSpec Pepper.Closure

/-- **Exactness over the seeded graph (both layouts, every lawful table).**  When `get_constraints` returns
    arrays, then with respect to the link graph it seeded (`build s`): the arrays have one common length `n ≤ P`
    and the last index is a position; an index that is not a position holds `None` in all three arrays; for a
    position `i`, `eq[i]` is the lowest position at even parity distance from `i`, `wc[i]` the lowest position at
    odd parity distance (`None` if there is none), and `st[i]` is a code whose set of bases is exactly the set of
    bases allowed by every template at even distance and, complemented, by every template at odd distance; no
    node is at odd distance from itself. -/
theorem arrays_exact_graph {tbl : CodeTable} (hl : tbl.lawful = true) {mode : Layout} {spec : Spec}
    (ok : SpecCodes tbl spec) {s : Seeds} {c : Cons} (hs : seeds mode spec = .ok s) (hb : build s = .ok c)
    {a : Arrays} (ha : getConstraintsT tbl mode spec = .ok a) : GraphExact tbl c s.P a := by
  obtain ⟨_, h | h | ⟨a', h⟩⟩ := getConstraintsT_spec hl ok hs hb
  · exact absurd (h.1.symm.trans ha) (by simp)
  · exact absurd (h.1.symm.trans ha) (by simp)
  · have : a' = a := by
      have := h.1.symm.trans ha
      simpa using this
    exact this ▸ h.2.2

/-- **Soundness, both layouts.**  For a document accepted by the reader and arrays returned by `get_constraints`:
    every non-blank index `i` denotes a nucleotide `m` (`denOf`: the nucleotide of the strand that sits there, see
    `layout_exact_strand`), and
    * the position `eq[i]` carries a nucleotide the design forces *equal* to `m`,
    * the position `wc[i]` (if any) carries a nucleotide the design forces *complementary* to `m`,
    * `st[i]` allows every base that all templates linked to `m` in the design allow (complemented at odd parity).
    So the arrays never claim more than the link closure of the specification.  (The converse inclusions: `arrays_exact`.) -/
theorem arrays_sound {mode : Layout} {stmts : List Stmt} {spec : Spec}
    (hload : Pil.load Generated.nupackTable stmts {} = .ok spec)
    {s : Seeds} {c : Cons} (hs : seeds mode spec = .ok s) (hb : build s = .ok c)
    {a : Arrays} (ha : getConstraints mode spec = .ok a)
    {i : Nat} {ch : Char} (hi : a.2.2[i]? = some (some ch)) :
    ∃ m, denOf mode spec i = some m ∧
      (∀ r, a.1[i]? = some (some r) → ∃ n, denOf mode spec r = some n ∧ NucReach (Pil.denote spec) m false n) ∧
      (∀ w, a.2.1[i]? = some (some w) → ∃ n, denOf mode spec w = some n ∧ NucReach (Pil.denote spec) m true n) ∧
      (∀ b, (∀ v q, ParityReach (Pil.denote spec) m.var q v →
          okVar Generated.pilTable (Pil.denote spec) v (flipB (flipB b m.comp) q)) →
        hasB (Generated.pilTable.maskC ch) b) := by
  have wf := load_wf hload
  have ok := load_specCodes hload
  have G := arrays_exact_graph pilLawful ok hs hb ha
  have hlt : i < a.1.length := by
    rw [← G.len_st]; exact (List.getElem?_eq_some_iff.1 hi).1
  have hk : i ∈ c.keys := by
    cases Classical.em (i ∈ c.keys) with
    | inl h => exact h
    | inr h =>
      have := (G.blank i hlt h).2.2
      rw [this] at hi; cases hi
  obtain ⟨m, hm, h1, h2, h3⟩ := arrays_sound_aux wf ok pil_N.2 hs hb G hlt hk
  exact ⟨m, hm, h1, h2, fun b hb' => h3 ch hi b hb'⟩

/-- **`layout_exact`, strand layout.**  An index below the array length is non-blank exactly when it is
    `start k + x` for a strand `k` and an offset `x` inside it, where `start k` is the sum over the earlier strands
    of (length + `strandGap`) — `strandGap` being the number of blanks measured on the working tree (2); that
    index then denotes (`denS` = `denOf .strand`) the `x`-th nucleotide of strand `k` of the design; and the array length is the last such
    index + 1. -/
theorem layout_exact_strand {stmts : List Stmt} {spec : Spec}
    (hload : Pil.load Generated.nupackTable stmts {} = .ok spec)
    {s : Seeds} {c : Cons} (hs : seeds .strand spec = .ok s) (hb : build s = .ok c)
    {a : Arrays} (ha : getConstraints .strand spec = .ok a) :
    (∀ i, i < a.2.2.length →
      (a.2.2[i]? ≠ some none ↔ ∃ q ∈ enum spec.strands, ∃ x, x < q.2.len ∧
        i = ((spec.strands.take q.1).map (fun o => o.len + Generated.strandGap)).sum + x)) ∧
    (∀ q ∈ enum spec.strands, ∀ x, x < q.2.len →
      denS spec (((spec.strands.take q.1).map (fun o => o.len + Generated.strandGap)).sum + x)
        = (nucsOfBases q.2.bases)[x]? ∧
      ((spec.strands.take q.1).map (fun o => o.len + Generated.strandGap)).sum + x < a.2.2.length) ∧
    a.2.2[a.2.2.length - 1]? ≠ some none := by
  have wf := load_wf hload
  have ok := load_specCodes hload
  have G := arrays_exact_graph pilLawful ok hs hb ha
  have hst : ∀ i, i < a.1.length → (a.2.2[i]? ≠ some none ↔ i ∈ c.keys) := by
    intro i hi
    constructor
    · intro h
      cases Classical.em (i ∈ c.keys) with
      | inl hk => exact hk
      | inr hk => exact absurd (G.blank i hi hk).2.2 h
    · intro hk h
      obtain ⟨_, _, ch, hch, _⟩ := G.key i hi hk
      rw [hch] at h; cases h
  have startEq : ∀ q ∈ enum spec.strands, startS spec q.1 =
      ((spec.strands.take q.1).map (fun o => o.len + Generated.strandGap)).sum :=
    fun q hq => startS_closed spec (mem_enum_lt hq)
  refine ⟨?_, ?_, ?_⟩
  · intro i hi
    rw [G.len_st] at hi
    rw [hst i hi, key_iff_pos_strand wf ok hs hb (Nat.lt_of_lt_of_le hi G.le_P)]
    constructor
    · rintro ⟨q, hq, x, hx, rfl⟩; exact ⟨q, hq, x, hx, by rw [startEq q hq]⟩
    · rintro ⟨q, hq, x, hx, rfl⟩; exact ⟨q, hq, x, hx, by rw [startEq q hq]⟩
  · intro q hq x hx
    rw [← startEq q hq]
    refine ⟨denS_pos wf ok hs hb hq hx, ?_⟩
    rw [G.len_st]
    -- the position is a key below P, hence inside the arrays
    obtain ⟨li, ce, be, ee, se, te, h1, _, _, _, _, _, rfl⟩ := seeds_ok hs
    obtain ⟨_, hkeys, _, _, _, _⟩ := build_spec (tbl := Generated.pilTable) hb (seeds_codes ok hs)
    have hli := layoutInits_strand spec
    rw [layOf_strand] at h1
    rw [h1] at hli
    have hli := Except.ok.inj hli
    have hk : startS spec q.1 + x ∈ c.keys := by
      rw [hkeys, List.map_append, List.mem_append]
      left
      rw [hli]
      exact List.mem_map.2 ⟨(startS spec q.1 + x, 'N'),
        List.mem_flatMap.2 ⟨q, hq, List.mem_map.2 ⟨x, List.mem_range.2 hx, rfl⟩⟩, rfl⟩
    cases Classical.em (startS spec q.1 + x < (layOf .strand spec).total) with
    | inl hlt => exact G.bound _ hk hlt
    | inr hge =>
      -- impossible: a position key that is not below P would collide with no array index, but `dump` numbers
      -- every integer key; use that the key list has no duplicates and sequence keys start at P
      exfalso
      have hpos : startS spec q.1 + x < (layStrand spec).total := by
        have hq2 : spec.strands[q.1]? = some q.2 := enum_getElem? hq
        have := layStrandAux_total spec.strands 0 q.1 q.2 hq2
        rw [startS_closed spec (mem_enum_lt hq)]
        show _ < (layStrandAux spec.strands 0).2
        omega
      exact hge hpos
  · have klast : a.1.length - 1 < a.1.length := by have := G.n_pos; omega
    rw [G.len_st, hst _ klast]
    exact G.last

/-- **C04: the arrays are the exact closure of the specification (both layouts).**  For a document accepted by
    the reader and arrays returned by `get_constraints`, at every non-blank index `i` (template `ch`), with `m` the
    nucleotide that sits at `i` (`denOf`):
    * `eq[i]` is the lowest non-blank index whose nucleotide the design forces *equal* to `m` (`SemMin … false`);
    * `wc[i]` is the lowest non-blank index whose nucleotide the design forces *complementary* to `m`, and `None`
      exactly when there is no such index (`SemMin … true`);
    * the bases of `st[i]` are exactly the bases allowed by every template linked to `m` in the design, complemented
      at odd parity (the intersection, complemented where the orientation is);
    and the three arrays have one length, blank in all three at the same indices.
    "Forces" is parity reachability in the link graph of `Pil.denote spec` (`NucReach`/`ParityReach`).
    Hypotheses `hs`/`hb`: the seeding raised nothing (see `C15.error_iff_unsat` for what that excludes). -/
theorem arrays_exact {mode : Layout} {stmts : List Stmt} {spec : Spec}
    (hload : Pil.load Generated.nupackTable stmts {} = .ok spec)
    {s : Seeds} {c : Cons} (hs : seeds mode spec = .ok s) (hb : build s = .ok c)
    {a : Arrays} (ha : getConstraints mode spec = .ok a) :
    a.2.1.length = a.1.length ∧ a.2.2.length = a.1.length ∧
    (∀ i : Nat, a.2.2[i]? = some none → a.1[i]? = some none ∧ a.2.1[i]? = some none) ∧
    ∀ (i : Nat) (ch : Char), a.2.2[i]? = some (some ch) →
      ∃ m v w, denOf mode spec i = some m ∧ a.1[i]? = some v ∧ a.2.1[i]? = some w ∧
        SemMin mode spec a m false v ∧ SemMin mode spec a m true w ∧
        (∀ b, hasB (Generated.pilTable.maskC ch) b ↔
          ∀ u q, ParityReach (Pil.denote spec) m.var q u →
            okVar Generated.pilTable (Pil.denote spec) u (flipB (flipB b m.comp) q)) := by
  have S : Seeded Generated.pilTable mode spec s c := ⟨load_wf hload, load_specCodes hload, hs, hb⟩
  have G := arrays_exact_graph pilLawful S.ok hs hb ha
  refine ⟨G.len_wc, G.len_st, ?_, fun i ch hi => arrays_exact_aux S pil_N.2 G hi⟩
  intro i hi
  have hlt : i < a.1.length := by rw [← G.len_st]; exact (List.getElem?_eq_some_iff.1 hi).1
  have hk : i ∉ c.keys := by
    intro hk
    obtain ⟨_, _, ch, hch, _⟩ := G.key i hlt hk
    rw [hch] at hi; cases hi
  exact ⟨(G.blank i hlt hk).1, (G.blank i hlt hk).2.1⟩

/-- **C04 for the strand layout, without side conditions**: `arrays_exact` where the seeding hypotheses are
    discharged (`seeding_total_strand`). -/
theorem arrays_exact_strand {stmts : List Stmt} {spec : Spec}
    (hload : Pil.load Generated.nupackTable stmts {} = .ok spec)
    {a : Arrays} (ha : getConstraints .strand spec = .ok a) :
    a.2.1.length = a.1.length ∧ a.2.2.length = a.1.length ∧
    (∀ i : Nat, a.2.2[i]? = some none → a.1[i]? = some none ∧ a.2.1[i]? = some none) ∧
    ∀ (i : Nat) (ch : Char), a.2.2[i]? = some (some ch) →
      ∃ m v w, denOf .strand spec i = some m ∧ a.1[i]? = some v ∧ a.2.1[i]? = some w ∧
        SemMin .strand spec a m false v ∧ SemMin .strand spec a m true w ∧
        (∀ b, hasB (Generated.pilTable.maskC ch) b ↔
          ∀ u q, ParityReach (Pil.denote spec) m.var q u →
            okVar Generated.pilTable (Pil.denote spec) u (flipB (flipB b m.comp) q)) := by
  obtain ⟨s, c, hs, hb⟩ := seeding_total_strand (load_wf hload)
  exact arrays_exact hload hs hb ha

/-- **C04 for the structure layout**, for documents in which every non-empty strand occurs in some structure
    (`Placed`): `arrays_exact` with the seeding hypotheses discharged (`seeding_total_struct`). -/
theorem arrays_exact_struct {stmts : List Stmt} {spec : Spec}
    (hload : Pil.load Generated.nupackTable stmts {} = .ok spec) (hp : Placed spec)
    {a : Arrays} (ha : getConstraints .struct spec = .ok a) :
    a.2.1.length = a.1.length ∧ a.2.2.length = a.1.length ∧
    (∀ i : Nat, a.2.2[i]? = some none → a.1[i]? = some none ∧ a.2.1[i]? = some none) ∧
    ∀ (i : Nat) (ch : Char), a.2.2[i]? = some (some ch) →
      ∃ m v w, denOf .struct spec i = some m ∧ a.1[i]? = some v ∧ a.2.1[i]? = some w ∧
        SemMin .struct spec a m false v ∧ SemMin .struct spec a m true w ∧
        (∀ b, hasB (Generated.pilTable.maskC ch) b ↔
          ∀ u q, ParityReach (Pil.denote spec) m.var q u →
            okVar Generated.pilTable (Pil.denote spec) u (flipB (flipB b m.comp) q)) := by
  obtain ⟨s, c, hs, hb⟩ := seeding_total_struct (load_wf hload) hp
  exact arrays_exact hload hs hb ha

/-- **`layout_exact`, structure layout.**  An index below the array length is non-blank exactly when it is
    `start j + offT (strands of structure j) x` for a structure `j` and an offset `x` inside it, where `start j` is
    the sum over the earlier structures of (their strands' lengths + `structGapStrands` blank each +
    `structGapStructs - structGapStrands` more), and `offT` walks the strands of the structure (each followed by
    `structGapStrands` blanks); that index denotes the `x`-th nucleotide of the structure (its strands'
    nucleotides in order). -/
theorem layout_exact_struct {stmts : List Stmt} {spec : Spec}
    (hload : Pil.load Generated.nupackTable stmts {} = .ok spec)
    {s : Seeds} {c : Cons} (hs : seeds .struct spec = .ok s) (hb : build s = .ok c)
    {a : Arrays} (ha : getConstraints .struct spec = .ok a) :
    (∀ i, i < a.2.2.length →
      (a.2.2[i]? ≠ some none ↔ ∃ q ∈ enum spec.structs, ∃ x, x < q.2.len ∧
        i = ((spec.structs.take q.1).map (fun so => widthT (structStrands spec so) +
              (Generated.structGapStructs - Generated.structGapStrands))).sum + offT (structStrands spec q.2) x)) ∧
    (∀ q ∈ enum spec.structs, ∀ x, x < q.2.len →
      denOf .struct spec (((spec.structs.take q.1).map (fun so => widthT (structStrands spec so) +
              (Generated.structGapStructs - Generated.structGapStrands))).sum + offT (structStrands spec q.2) x)
        = (structNucsM spec q.2)[x]?) := by
  have wf := load_wf hload
  have ok := load_specCodes hload
  have G := arrays_exact_graph pilLawful ok hs hb ha
  have hst : ∀ i, i < a.1.length → (a.2.2[i]? ≠ some none ↔ i ∈ c.keys) := by
    intro i hi
    constructor
    · intro h
      cases Classical.em (i ∈ c.keys) with
      | inl hk => exact hk
      | inr hk => exact absurd (G.blank i hi hk).2.2 h
    · intro hk h
      obtain ⟨_, _, ch, hch, _⟩ := G.key i hi hk
      rw [hch] at h; cases h
  have startEq : ∀ q ∈ enum spec.structs, stStart spec q.1 =
      ((spec.structs.take q.1).map (fun so => widthT (structStrands spec so) +
        (Generated.structGapStructs - Generated.structGapStrands))).sum :=
    fun q hq => stStart_closed spec (mem_enum_lt hq)
  refine ⟨?_, ?_⟩
  · intro i hi
    rw [G.len_st] at hi
    rw [hst i hi, key_iff_pos_struct wf ok hs hb (Nat.lt_of_lt_of_le hi G.le_P)]
    constructor
    · rintro ⟨q, hq, x, hx, rfl⟩; exact ⟨q, hq, x, hx, by rw [startEq q hq]⟩
    · rintro ⟨q, hq, x, hx, rfl⟩; exact ⟨q, hq, x, hx, by rw [startEq q hq]⟩
  · intro q hq x hx
    rw [← startEq q hq]
    exact denT_pos wf ok hs hb hq hx

/-- **Same representative ⟺ forced equal**: two non-blank indices receive the same entry of `eq` exactly when the
    specification forces their nucleotides equal. -/
theorem eq_iff_forced_equal {mode : Layout} {stmts : List Stmt} {spec : Spec}
    (hload : Pil.load Generated.nupackTable stmts {} = .ok spec)
    {s : Seeds} {c : Cons} (hs : seeds mode spec = .ok s) (hb : build s = .ok c)
    {a : Arrays} (ha : getConstraints mode spec = .ok a)
    {i j : Nat} {ci cj : Char} (hi : a.2.2[i]? = some (some ci)) (hj : a.2.2[j]? = some (some cj))
    {m n : Nuc} (hm : denOf mode spec i = some m) (hn : denOf mode spec j = some n) :
    a.1[i]? = a.1[j]? ↔ NucReach (Pil.denote spec) m false n := by
  have S : Seeded Generated.pilTable mode spec s c := ⟨load_wf hload, load_specCodes hload, hs, hb⟩
  exact ConstraintGen.eq_iff_forced_equal S pil_N.2 (arrays_exact_graph pilLawful S.ok hs hb ha) hi hj hm hn

/-- What is not a theorem: that the returned arrays coincide with the output of the *executable* naive procedure
    `LinkSpec.specArrays` (saturation over the semantic link graph + `lineOf`, the line of nucleotides with blank
    separators).  Missing for that: correctness of the saturation procedure `classOf` with respect to `ParityReach`,
    and the identification of `lineOf` with the two closed-form layouts (`layout_exact_strand`,
    `layout_exact_struct`).  The equality itself is checked on every sampled small document
    (`pil-spec-arrays` = the independent Python oracle = the real arrays). -/
def arrays_eq_specArrays_statement : Prop :=
  ∀ (stmts : List Stmt) (spec : Spec) (mode : Layout) (a : Arrays),
    Pil.load Generated.nupackTable stmts {} = .ok spec →
    getConstraints mode spec = .ok a →
    a = specArrays Generated.pilTable (mode == .struct) (Pil.denote spec)

/-! ### non-vacuity: concrete small documents -/

/-- `get_constraints` on a statement list as the reader hands it over -/
def run (mode : Layout) (l : List Stmt) : Except ConstraintGen.Err Arrays :=
  match Pil.load Generated.nupackTable l {} with
  | .ok s => getConstraints mode s
  | .error _ => .error .assertion

/-- the hypotheses "the seeding succeeds" of the theorems hold on a document -/
def seeded (mode : Layout) (l : List Stmt) : Bool :=
  match Pil.load Generated.nupackTable l {} with
  | .ok s => (match seeds mode s with
    | .ok sd => (match build sd with | .ok _ => true | .error _ => false)
    | .error _ => false)
  | .error _ => false

/-- a duplex: `A = a`, `B = a*`, fully paired; the `S` of the template shows up complemented (`S`) on the other strand -/
def duplex : List Stmt := [
  .seq "a" "NNS".toList, .strand "A" false ["a"], .strand "B" false ["a*"],
  .struct "D" (some "1nt") ["A", "B"] "(((+)))".toList ]

/-- a hairpin pairing a domain of odd length with itself: the middle position is its own partner -/
def hairpin : List Stmt := [
  .seq "a" "NNNNN".toList, .strand "A" false ["a", "a"], .struct "H" (some "1nt") ["A"] "((((()))))".toList ]

/-- `D` (AGT) meets `V` (ACG) through an `equal` line: the common part is `R` (AG) -/
def dv : List Stmt := [
  .seq "a" "DDD".toList, .seq "b" "VVV".toList, .strand "A" false ["a", "b"],
  .struct "S" none ["A"] "......".toList, .equal ["a", "b"] ]

def okIs (r : Except ConstraintGen.Err Arrays) (a : Arrays) : Bool :=
  match r with | .ok b => b == a | .error _ => false

def errIs (r : Except ConstraintGen.Err Arrays) (e : ConstraintGen.Err) : Bool :=
  match r with | .ok _ => false | .error e' => e' == e

example : seeded .strand duplex = true ∧ seeded .struct duplex = true := by decide +kernel

/-- strand layout: two blanks between the strands; every position is paired with its mirror image -/
example : okIs (run .strand duplex)
    ([some 0, some 1, some 2, none, none, some 5, some 6, some 7],
     [some 7, some 6, some 5, none, none, some 2, some 1, some 0],
     [some 'N', some 'N', some 'S', none, none, some 'S', some 'N', some 'N']) = true := by decide +kernel

/-- structure layout: one blank between the strands of the complex -/
example : okIs (run .struct duplex)
    ([some 0, some 1, some 2, none, some 4, some 5, some 6],
     [some 6, some 5, some 4, none, some 2, some 1, some 0],
     [some 'N', some 'N', some 'S', none, some 'S', some 'N', some 'N']) = true := by decide +kernel

/-- the specification side computes the same arrays on the duplex -/
example : (match Pil.load Generated.nupackTable duplex {} with
    | .ok s => specArrays Generated.pilTable false (Pil.denote s) ==
        ([some 0, some 1, some 2, none, none, some 5, some 6, some 7],
         [some 7, some 6, some 5, none, none, some 2, some 1, some 0],
         [some 'N', some 'N', some 'S', none, none, some 'S', some 'N', some 'N'])
    | .error _ => false) = true := by decide +kernel

/-- `D` meeting `V`: the second domain shares the representatives of the first, every template becomes `R` -/
example : okIs (run .strand dv)
    ([some 0, some 1, some 2, some 0, some 1, some 2], [none, none, none, none, none, none],
     [some 'R', some 'R', some 'R', some 'R', some 'R', some 'R']) = true := by decide +kernel

end Pepper.C04
