import PepperProofs.Des
import PepperProofs.LoadInvDes
import PepperProofs.LoadInvDesSys
/-!
# C03 — the NUPACK `.des` output is constraint-equivalent to the source program

"For every accepted program, the .des specification (structures, sequence templates, sequence-to-structure
assignments, objective lines, and the auxiliary duplex structures that tie signals together) forces exactly
the same nucleotide equalities, complementarities and allowed bases on the program's structures as the
source program does, no more and no fewer, and lists every structure with its target and its
optimisation bound."

Model: `PepperModel/Des.lean`.  `desDoc inst` is what `Component.output_nupack` / `System.output_nupack`
print for the instance tree `inst` (the result of `Sys.loadFile`), as a list of lines; `SatDes` is the
reading of the format; `designOf inst` is the design the same object tables describe (domains, strands,
structures of the components; per signal one domain `S` and the `equals` entry `[S, R₁', …]`), with
`Sat` = `LinkSpec.Sat`, the specification layer shared with C04/C15.  Proofs: `PepperProofs/Des.lean`.

Tie to the code (harness/props/c03.py, every run): an independent reader of the implementation's `.des`
text gives exactly `desDoc` of the model; `BlocksOk` holds for the model's instance tree of every accepted
program; `designOf inst` is the design `Denote.denoteTop` assigns to the source.

**The full statement is `des_equiv_of_load`** (no hypothesis on the tables, none on the design): for every
program `Sys.loadFile` accepts, under name hypotheses on the sources only, the `.des` document and the design the
*source* denotes (`Denote.denoteFile`) have the same solutions on the program's own domains.  Both missing links
of the earlier `_partial` statements are discharged by theorem (the driver still evaluates them per run as a
redundant cross-check):
* **Repair F17** (`System.output_nupack` keeps a `done` set; model `Sys.dedupEntries`): of the entries of one signal
  with equal connector name and orientation only the first is written (`connectors_written_once_keys`,
  `connectors_written_once`).  The design still lists every entry, so `BlocksOk` carries one more clause for signal
  blocks (`BlockOk`): such entries are the same entry.  It is what `Sys.loadFile` produces (proved in
  `blocksOk_of_load`), it is evaluated per run with the rest of `BlocksOk` (`tables_ok`), and without it
  `des_no_fewer` is false (`exClash` below).
* **Repair F17b** (model `Sys.rcSuffix`): when one port is bound to one signal both plainly and starred, both
  connectors are written and the one of the complementary binding is called `<signal>-<instance>-<port>-_rc`
  (`connectors_written_once_keys`).  The structure names of a signal block are then pairwise distinct unless a third
  entry's own connector name is `<instance>-<port>-_rc` (`connectors_written_once`: exact condition;
  `connectors_written_once_of_no_rc`; `exRcClash` below shows it is needed).  On loaded trees no suffix is ever
  written (`LoadInv.rcSuffix_loaded`), and the `BlocksOk`-relative theorems keep their statements: uniqueness of the
  structure names is the hypothesis `BlocksOk.structNames`, and a connector is looked up under its new name.
* **M1, `BlocksOk (blocksInst inst)` — discharged** (`blocksOk_of_load`, from `PepperProofs/LoadInvDes.lean`): it
  holds for whatever `Sys.loadFile` returns, for bundles satisfying `DesNamesOk`: component sources with user
  names in their statements (`StmtNamesOk`, the statement part of C01's `UserNamesOk`) and pairwise distinct
  sequences in the declaration (`PortsDistinct`); system sources with instance and signal names without `-`, no
  signal named like an instance of the same system, pairwise distinct signals in the declaration
  (`SysNamesOk`).  Every one of these is needed for a name clause of `BlocksOk` — counterexample programs at
  `LoadInv.SysNamesOk` / `LoadInv.PortsDistinct`; they are collisions in the real `.des` text, too.  Sequence,
  strand and structure names may contain `-`.  The driver still evaluates `BlocksOk` per run (`tables_ok`); for
  sources satisfying `DesNamesOk` this is now a redundant cross-check.
* **M2 for one component — discharged** (`des_equiv_component_of_load`): the document of a loaded component has
  exactly the solutions of the design `Denote.denoteComp` assigns to the *source* (C01's
  `compile_preserves_design` closes the gap between the tables and the source).
* **M2 for instance trees of any depth — discharged** (`designOf_sat_iff_of_load`, from
  `PepperProofs/LoadInvDesSys.lean`, `DesSys.tree_sat_iff`): `designOf inst` and the design `Denote.denoteFile`
  assigns to the source agree on every field `Sat` reads (domains, `equals`, strands, the strand lists and
  dot-parens of the structures), hence have the same solutions for every code table.  The two walks are followed in
  lockstep: component leaves by C01 (`compile_preserves` + `emit_sound`), the statement loop appends the
  instances' designs in order on both sides, and the signal part is C02's agreement of the signal tables
  (`SysProofs.sys_tables_agree`: same signals, lengths, and per entry the port's region, reverse-complemented
  exactly when `wc`).  Hypotheses: the names-only part of C02's `bundleOk` (`bundleNamesOk`: `UserNamesOk` for
  component sources; instance names without `-`, signal names non-empty, not ending in `*`, without `-` for system
  sources) — no hypothesis on code letters: `Sat` is compared for an arbitrary table.
* `DesNamesOk b ∧ bundleNamesOk b` follows from the single decidable check `DesSys.desBundleOk b`
  (`des_equiv_of_load_checked`).

The `_partial` theorems (`des_equiv_partial`: relative to `BlocksOk` and `designOf`; `des_equiv_of_load_partial`:
M2 as a hypothesis `hM2`, for an arbitrary design `d`) are kept: they are what the full statement is assembled from.
-/
namespace Pepper.C03
open Pepper Pepper.Comp Pepper.Sys Pepper.LinkSpec Pepper.Des

/-- the names of the components' base sequences under their instance prefixes: the program's own
    domain variables (everything else in the document — signal sequences `S`, auxiliary `S-_WC` — is
    introduced by the compiler) -/
def progDomains (inst : Inst) : List String := compDomains (blocksInst inst)

/-! ### 1. every structure is listed, once, with its target, its sequences and its bound -/

/-- For every instance tree whose structure names are distinct, every component `st` of the tree and every
    structure `e` of it: the document has exactly one `structure` line of that (prefixed) name and it
    carries the target string; exactly one assignment line, whose items are the structure's non-dummy base
    sequences in order, starred iff reversed; and exactly one bound line, printed `%f`, if the
    optimisation parameter is non-zero — none if it is zero. -/
theorem lists_every_structure (inst : Inst) (hn : ((assignLines (desDoc inst)).map (·.1)).Nodup)
    (st : Comp.St) (hb : Block.comp st ∈ blocksInst inst) (e : StructE) (he : e ∈ st.structs) :
    (structLines (desDoc inst)).filter (·.1 == st.pfx ++ e.name) = [(st.pfx ++ e.name, e.struct)] ∧
    (assignLines (desDoc inst)).filter (·.1 == st.pfx ++ e.name) =
      [(st.pfx ++ e.name, (e.bases.filter (·.len != 0)).map (fun b => ⟨st.pfx ++ b.name, b.rev⟩))] ∧
    (boundLines (desDoc inst)).filter (·.1 == st.pfx ++ e.name) =
      if e.opt.isZero then [] else [(st.pfx ++ e.name, String.ofList e.opt.fmtF)] :=
  lists_blocks hn hb he

/-- the same for a single component, where distinctness of the structure names is all that is needed -/
theorem lists_every_structure_component (st : Comp.St) (hn : (st.structs.map (·.name)).Nodup)
    (e : StructE) (he : e ∈ st.structs) :
    (structLines (compDoc st)).filter (·.1 == st.pfx ++ e.name) = [(st.pfx ++ e.name, e.struct)] ∧
    (assignLines (compDoc st)).filter (·.1 == st.pfx ++ e.name) =
      [(st.pfx ++ e.name, (e.bases.filter (·.len != 0)).map (fun b => ⟨st.pfx ++ b.name, b.rev⟩))] ∧
    (boundLines (compDoc st)).filter (·.1 == st.pfx ++ e.name) =
      if e.opt.isZero then [] else [(st.pfx ++ e.name, String.ofList e.opt.fmtF)] := by
  have hd : desDoc (Inst.comp st) = compDoc st := by simp [desDoc, docOf, blocksInst, blockDoc]
  have := lists_every_structure (Inst.comp st) (by
    rw [hd, assignLines_compDoc, List.map_map]
    have : (st.structs.map (·.name)).map (st.pfx ++ ·) = st.structs.map ((fun x => x.1) ∘ fun e =>
        (st.pfx ++ e.name, (e.bases.filter (·.len != 0)).map (baseItem st.pfx))) := by
      simp [List.map_map, Function.comp_def]
    rw [← this]
    exact nodup_map_of_inj (fun a b h => by simpa using h) hn) st (by simp [blocksInst]) e he
  rw [hd] at this
  exact this

/-! ### 2. the document lays the same nucleotides onto a structure as the program does -/

/-- For every program structure, the nucleotides the document lays onto its positions and the nucleotides
    of its strands in the design are both the expansion of the structure's `base_seqs` in the object
    tables (`cnucs`: `fwd` of each base sequence, `rc` of it when reversed) — zero-length sequences
    contribute nothing on either side (`cnucs_filter`). -/
theorem positions_agree (inst : Inst) (ok : BlocksOk (blocksInst inst)) (st : Comp.St)
    (hb : Block.comp st ∈ blocksInst inst) (e : StructE) (he : e ∈ st.structs) :
    desPositions (desDoc inst) (st.pfx ++ e.name) = Des.cnucs st.pfx e.bases ∧
    designPositions (designOf inst) (st.pfx ++ e.name) = Des.cnucs st.pfx e.bases :=
  positions_blocks ok hb he

/-- zero-length base sequences contribute no position -/
theorem positions_skip_dummies (p : String) (bs : List BaseRef) :
    Des.cnucs p (bs.filter (·.len != 0)) = Des.cnucs p bs := Des.cnucs_filter p bs

/-! ### 3. the signal connector forces exactly the source's `equals` entry -/

/-- **The heart of "no more and no fewer".**  One signal `S` of length `n`, its auxiliary sequence `W`
    (`S-_WC`), bound regions `Rᵢ` of length `n` with flags `wcᵢ` (complementary binding), none mentioning
    `S` or `W`; any base type with an involutive complement.  An assignment `a` of the other variables
    extends to `S` and `W` satisfying the duplex `S-_Self` (`W` paired with `S`) and, for each `i`, the
    duplex over `S Rᵢ` (if `wcᵢ`) or `W Rᵢ` (if not)  **iff**  `a` extends to `S` alone satisfying the
    source's `equals` entry `[S, R₁', …]` with `Rᵢ' = rc Rᵢ` when `wcᵢ` — i.e. iff there is a value for
    the signal with every `Rᵢ` equal to it (not `wcᵢ`) or reverse-complementary to it (`wcᵢ`).  Both
    directions construct the witness (`W := rc S`). -/
theorem signal_gadget_equiv {β : Type} {compl : β → β} (hcc : ∀ b, compl (compl b) = b) (n : Nat)
    (sName wName : String) (hne : sName ≠ wName) (Rs : List (List Nuc × Bool))
    (hlen : ∀ r ∈ Rs, r.1.length = n)
    (hfresh : ∀ r ∈ Rs, ∀ m ∈ r.1, m.var.dom ≠ sName ∧ m.var.dom ≠ wName) (a : Var → β) :
    (∃ a', (∀ v : Var, v.dom ≠ sName → v.dom ≠ wName → a' v = a v) ∧
        GadgetSat (compl := compl) a' n (fwd sName n) (fwd wName n) Rs) ↔
    (∃ a'', (∀ v : Var, v.dom ≠ sName → a'' v = a v) ∧
        EqualSat compl a'' (fwd sName n :: Rs.map regionOf)) :=
  Des.signal_gadget_equiv hcc n sName wName hne Rs hlen hfresh a

/-- the connector structures are read off the document: for a signal block of the tree, the structure
    lines `S-_Self` and `S-<port>` with the positions the document lays onto them say exactly `GadgetSat`
    over `fwd S`, `fwd S-_WC` and the ports' nucleotides -/
theorem connector_is_gadget (inst : Inst) (ok : BlocksOk (blocksInst inst)) (pfx sg : String) (len : Nat)
    (es : List SigEntry) (hb : Block.signal pfx sg len es ∈ blocksInst inst) (a : Var → Base) :
    (∀ s ∈ structLines (signalDoc pfx sg len es), PairSat Base.compl a s.2 (desPositions (desDoc inst) s.1)) ↔
    GadgetSat (compl := Base.compl) a len (fwd (pfx ++ sg) len) (fwd (wcName pfx sg) len)
      (es.map (fun e => (portNucs pfx len e, e.wc))) :=
  gadget_of_block ok hb a

/-- **A connector is written once (repair F17), the complementary one of a port bound both ways as `…-_rc` (repair
    F17b).**  `System.output_nupack` keeps a `done` set: of the entries of one signal that share connector name
    (`<instance>-<port>`) and orientation (`wc`) only the first is written.  For every signal block, unconditionally:
    the connector lines of `signalDoc pfx sg len es` are those of a sub-list `kept` of the entry table (same order)
    whose (connector name, orientation) pairs are pairwise distinct and which represents every entry; the connector
    of a kept entry `e` is called `<signal>-<instance>-<port>` followed by `Sys.rcSuffix es e`, which is `-_rc` if
    `e` is a complementary binding and some entry of the (full) table binds the same port plainly, and empty
    otherwise (`rcSuffix_spec`). -/
theorem connectors_written_once_keys (pfx sg : String) (len : Nat) (es : List SigEntry) :
    ∃ kept : List SigEntry, kept.Sublist es ∧
      (kept.map (fun e => (e.connName, e.wc))).Nodup ∧
      (∀ e ∈ es, ∃ e' ∈ kept, e'.connName = e.connName ∧ e'.wc = e.wc) ∧
      structLines (signalDoc pfx sg len es) =
        (pfx ++ sg ++ "-_Self", duplex len) ::
        kept.map (fun e => (pfx ++ sg ++ "-" ++ e.connName ++ rcSuffix es e, duplex len)) ∧
      assignLines (signalDoc pfx sg len es) =
        (pfx ++ sg ++ "-_Self", [⟨wcName pfx sg, false⟩, ⟨pfx ++ sg, false⟩]) ::
        kept.map (fun e => (pfx ++ sg ++ "-" ++ e.connName ++ rcSuffix es e,
          (⟨if e.wc then pfx ++ sg else wcName pfx sg, false⟩ : Item) :: (portItems pfx e).2)) :=
  ⟨dedupEntries es, dedupEntries_sublist es, dedupEntries_keys_nodup es, fun _ he => dedupEntries_cover he,
    by simp only [structLines_signalDoc, portItems_fst_connName],
    by simp only [assignLines_signalDoc, portItems_fst_connName]⟩

/-- what the suffix is: `-_rc` exactly for a complementary binding of a port that some entry of the same signal binds
    plainly, nothing otherwise -/
theorem rcSuffix_spec (es : List SigEntry) (e : SigEntry) :
    rcSuffix es e = if e.wc = true ∧ ∃ e' ∈ es, e'.connName = e.connName ∧ e'.wc = false then "-_rc" else "" := by
  split
  · rename_i h; exact rcSuffix_eq_rc h
  · rename_i h; exact rcSuffix_eq_empty h

/-- For every signal block, the structure names of `signalDoc pfx sg len es` (`S-_Self`, the connectors
    `S-<instance>-<port>` and, for a port bound both ways, `S-<instance>-<port>-_rc`) are pairwise distinct **iff** no
    port that the signal binds in both orientations (`e` starred, `e₀` plain, same connector name) has a sibling entry
    `e'` whose own connector name is that name followed by `-_rc`.  The side condition is exact; it can fail because
    sequence names of components may contain `-` and `_` (`exRcClash` below).  One port bound to one signal both
    plainly and starred no longer gives two connectors of one name (repair F17b), nor does a port bound twice in the
    same orientation (an input that is also an output, `examples/David_CRN/Oscillator.sys`; repair F17). -/
theorem connectors_written_once (pfx sg : String) (len : Nat) (es : List SigEntry) :
    ((structLines (signalDoc pfx sg len es)).map (·.1)).Nodup ↔
      ∀ e ∈ es, ∀ e₀ ∈ es, ∀ e' ∈ es, e.wc = true → e₀.wc = false → e₀.connName = e.connName →
        e'.connName ≠ e.connName ++ "-_rc" :=
  LoadInv.signal_structNames_nodup_iff pfx sg len es

/-- if no connector name of the signal's entries ends in `-_rc`, the structure names of the signal block are pairwise
    distinct, whatever the bindings -/
theorem connectors_written_once_of_no_rc (pfx sg : String) (len : Nat) (es : List SigEntry)
    (h : ∀ e ∈ es, ∀ s : String, e.connName ≠ s ++ "-_rc") :
    ((structLines (signalDoc pfx sg len es)).map (·.1)).Nodup :=
  (connectors_written_once pfx sg len es).2 (fun e _ _ _ e' he' _ _ _ => h e' he' e.connName)

/-- on a table in which the entries of one connector name have one orientation — in particular pairwise distinct
    connector names, which is what `Sys.loadFile` produces from sources satisfying `DesNamesOk`
    (`LoadInv.rcSuffix_loaded`) — no suffix is written and the structure names are pairwise distinct -/
theorem connectors_plain_of_consistent (pfx sg : String) (len : Nat) (es : List SigEntry)
    (h : ∀ e ∈ es, ∀ e' ∈ es, e.connName = e'.connName → e.wc = e'.wc) :
    (∀ e ∈ es, rcSuffix es e = "") ∧ ((structLines (signalDoc pfx sg len es)).map (·.1)).Nodup :=
  ⟨fun _ he => rcSuffix_of_consistent h he,
   (connectors_written_once pfx sg len es).2 (fun e he e₀ he₀ _ _ hw hw₀ hc => by
     have := h e₀ he₀ e he hc
     rw [hw, hw₀] at this
     cases this)⟩

/-! ### 4. the equivalence -/

/-- every solution of the document is, unchanged, a solution of the design (the document forces no fewer
    constraints than the program) -/
theorem des_no_fewer (inst : Inst) (ok : BlocksOk (blocksInst inst)) (tbl : CodeTable) (a : Var → Base)
    (h : SatDes tbl (desDoc inst) a) : Des.Sat tbl (designOf inst) a :=
  satDes_sat tbl ok h

/-- every solution of the design — signals included — becomes a solution of the document by setting each
    auxiliary `S-_WC` to the reverse complement of `S` and changing nothing else (the document forces no
    more constraints than the program) -/
theorem des_no_more (inst : Inst) (ok : BlocksOk (blocksInst inst)) (tbl : CodeTable)
    (hN : ∀ b, allows tbl 'N' b) (a : Var → Base) (h : Des.Sat tbl (designOf inst) a) :
    SatDes tbl (desDoc inst) (fixW (blocksInst inst) a) ∧
    ∀ q ∈ (designOf inst).domains, ∀ k, fixW (blocksInst inst) a ⟨q.1, k⟩ = a ⟨q.1, k⟩ :=
  ⟨sat_satDes tbl hN ok h, fun _ hq k => fixW_domain ok a hq k⟩

/-- **`des_equiv`, relative to the object tables (PARTIAL).**  For every instance tree — any nesting depth,
    any number of signals — that satisfies the decidable consistency condition `BlocksOk` (sequence,
    structure and strand names distinct across the tree; every structure made of its component's strands
    and emitted sequences; every bound port of the signal's length and made of program domains; entries of one
    signal with equal connector name and orientation are the same entry), every
    code table in which `N` allows every base, and every assignment `a` of the program's own domain
    variables: `a` extends to the signal and auxiliary sequences so as to satisfy the document  **iff**
    `a` extends to the signal sequences so as to satisfy the design of the tables.

    GOAL (full statement): for every bundle with
    `Sys.loadFile b 32 entry args "@" "" "." includes anon = .ok (inst, _)` and
    `Denote.denoteTop b entry args includes anon = .ok d`,
    `∀ a, (∃ aux, SatDes tbl (desDoc inst) (a ∪ aux)) ↔ (∃ sig, Sat tbl d (a ∪ sig))`.

    Missing, exactly: (M1) `Sys.loadFile … = .ok (inst, _) → BlocksOk (blocksInst inst)` (an invariant of
    `Comp.addStmt` / `Sys.loadStmts`; the name clauses need that instance and signal names contain no `-`);
    (M2) `Denote.denoteTop … = .ok d → d = designOf inst` up to the `opt` / `kinetics` fields `Sat` does not
    read (this is C01/C02's `system_preserves_design` for the object tables).  Neither is used by this
    theorem; both are proved in section 5 (`blocksOk_of_load`, `designOf_sat_iff_of_load`), which closes the
    GOAL as `des_equiv_of_load`.  The harness still evaluates both on the model's instance tree of every
    accepted generated program (`tables_ok`, `Des.designOf`) as a cross-check. -/
theorem des_equiv_partial (inst : Inst) (ok : BlocksOk (blocksInst inst)) (tbl : CodeTable)
    (hN : ∀ b, allows tbl 'N' b) (a : Var → Base) :
    (∃ a', (∀ v : Var, v.dom ∈ progDomains inst → a' v = a v) ∧ SatDes tbl (desDoc inst) a') ↔
    (∃ a'', (∀ v : Var, v.dom ∈ progDomains inst → a'' v = a v) ∧ Des.Sat tbl (designOf inst) a'') :=
  des_equiv_blocks tbl hN ok a

/-- a single component (no signals, no auxiliary sequences): the document and the design have the very
    same solutions -/
theorem des_equiv_component (st : Comp.St) (ok : BlocksOk [Block.comp st]) (tbl : CodeTable)
    (a : Var → Base) : SatDes tbl (compDoc st) a ↔ Des.Sat tbl (compDesign st) a := by
  have hd : docOf [Block.comp st] = compDoc st := by simp [docOf, blockDoc]
  have hD : designOfBlocks [Block.comp st] = compDesign st := by simp [designOfBlocks, blockDesign]
  constructor
  · intro h
    have := satDes_sat tbl ok (a := a) (by rw [hd]; exact h)
    rwa [hD] at this
  · intro h
    have hs : Des.Sat tbl (designOfBlocks [Block.comp st]) a := by rw [hD]; exact h
    -- rebuild `SatDes` from `Sat` field by field: same templates, same positions, same pairs
    have hb : Block.comp st ∈ [Block.comp st] := by simp
    refine ⟨?_, satDes_pair_iff.2 ?_⟩
    · intro p hp
      have : p ∈ (designOfBlocks [Block.comp st]).domains := by
        rw [hD]; simpa [compDesign, seqLines_compDoc] using hp
      exact hs.tmpl p this
    · intro s hs'
      rw [structLines_compDoc] at hs'
      obtain ⟨e, he, rfl⟩ := List.mem_map.1 hs'
      have hp := desPositions_comp ok hb he
      rw [hd] at hp
      simp only
      rw [hp]
      have hsD : (⟨st.pfx ++ e.name, e.strands.map (st.pfx ++ ·), e.struct, Des.optOfDec e.opt⟩ : StructD) ∈
          (designOfBlocks [Block.comp st]).structs := by
        rw [hD]; exact List.mem_map.2 ⟨e, he, rfl⟩
      have := hs.pair _ hsD
      rw [structNucs_comp ok hb he] at this
      exact pairSat_iff.2 this

/-! ### 5. the same, for whatever `load` / `loadFile` returns -/

section of_load
open Pepper.LoadInv

/-- **M1, discharged**: the instance tree of every successful `loadFile` — from a bundle whose sources satisfy
    the name hypotheses `DesNamesOk` — satisfies `BlocksOk` -/
theorem blocksOk_of_load {b : Bundle} (hb : DesNamesOk b) {fuel : Nat} {base : String} {args : Nat}
    {argKey pfx path : String} {includes : List String} {anon : Nat} {inst : Inst} {a' : Nat}
    (hload : Sys.loadFile b fuel base args argKey pfx path includes anon = .ok (inst, a')) :
    BlocksOk (blocksInst inst) :=
  loadFile_blocksOk hb hload

/-- **`des_equiv` for one component, fully closed.**  For every component source the compiler accepts (with
    C01's hypotheses: `UserNamesOk`, `CodesOk tbl`): the specification `Denote.denoteComp` accepts the source,
    and an assignment satisfies the emitted `.des` document **iff** it satisfies the design the *source*
    denotes.  No hypothesis on the tables: `BlocksOk` comes from `LoadInv.comp_blocksOk`, the step from the
    tables to the source from C01 (`Comp.compile_preserves` + `Comp.emit_sound`). -/
theorem des_equiv_component_of_load (tbl : CodeTable) {src : Comp.Src} {n : Nat} {pfx : String} {a : Nat}
    {st : Comp.St} {a' : Nat} (hload : Comp.load src n pfx a = .ok (st, a'))
    (hnames : UserNamesOk src = true) (hcodes : CodesOk tbl src = true) :
    ∃ o ports, Denote.denoteComp src pfx a = .ok (o, ports, a') ∧
      ∀ asg : Var → Base, SatDes tbl (compDoc st) asg ↔ Des.Sat tbl (o.design []) asg := by
  obtain ⟨o, ports, hden, hsat⟩ := comp_sat_iff tbl hload hnames hcodes
  refine ⟨o, ports, hden, fun asg => ?_⟩
  exact (des_equiv_component st (comp_blocksOk hload (stmtNamesOk_of_user hnames)) tbl asg).trans (hsat asg)

/-- the document forces no fewer and no more constraints than the tables of a loaded tree (`des_no_fewer`,
    `des_no_more` without the `BlocksOk` hypothesis) -/
theorem des_no_fewer_no_more_of_load {b : Bundle} (hb : DesNamesOk b) {fuel : Nat} {base : String} {args : Nat}
    {argKey pfx path : String} {includes : List String} {anon : Nat} {inst : Inst} {a' : Nat}
    (hload : Sys.loadFile b fuel base args argKey pfx path includes anon = .ok (inst, a')) (tbl : CodeTable)
    (hN : ∀ b, allows tbl 'N' b) (a : Var → Base) :
    (SatDes tbl (desDoc inst) a → Des.Sat tbl (designOf inst) a) ∧
    (Des.Sat tbl (designOf inst) a → SatDes tbl (desDoc inst) (fixW (blocksInst inst) a) ∧
      ∀ q ∈ (designOf inst).domains, ∀ k, fixW (blocksInst inst) a ⟨q.1, k⟩ = a ⟨q.1, k⟩) :=
  ⟨des_no_fewer inst (blocksOk_of_load hb hload) tbl a, des_no_more inst (blocksOk_of_load hb hload) tbl hN a⟩

/-- **`des_equiv` for instance trees (PARTIAL: M1 discharged, M2 a hypothesis).**  For every bundle satisfying
    `DesNamesOk`, every tree `loadFile` returns for it, every code table in which `N` allows every base and every
    design `d` with the same solutions as the design of the tables (`hM2`): an assignment `a` of the program's
    own domain variables extends to the signal and auxiliary sequences so as to satisfy the document **iff** it
    extends to the signal sequences so as to satisfy `d`.  Missing w.r.t. the full statement: `hM2` for the design
    the source denotes — supplied by `designOf_sat_iff_of_load`; the full statement is `des_equiv_of_load`. -/
theorem des_equiv_of_load_partial {b : Bundle} (hb : DesNamesOk b) {fuel : Nat} {base : String} {args : Nat}
    {argKey pfx path : String} {includes : List String} {anon : Nat} {inst : Inst} {a' : Nat}
    (hload : Sys.loadFile b fuel base args argKey pfx path includes anon = .ok (inst, a')) (tbl : CodeTable)
    (hN : ∀ b, allows tbl 'N' b) (d : Design) (hM2 : ∀ asg, Des.Sat tbl (designOf inst) asg ↔ Des.Sat tbl d asg)
    (a : Var → Base) :
    (∃ a', (∀ v : Var, v.dom ∈ progDomains inst → a' v = a v) ∧ SatDes tbl (desDoc inst) a') ↔
    (∃ a'', (∀ v : Var, v.dom ∈ progDomains inst → a'' v = a v) ∧ Des.Sat tbl d a'') := by
  rw [des_equiv_partial inst (blocksOk_of_load hb hload) tbl hN a]
  constructor
  · rintro ⟨a'', h1, h2⟩; exact ⟨a'', h1, (hM2 a'').1 h2⟩
  · rintro ⟨a'', h1, h2⟩; exact ⟨a'', h1, (hM2 a'').2 h2⟩

/-- **M2, discharged for instance trees of any depth**: for every bundle whose sources satisfy the names-only
    hypotheses of C02 (`bundleNamesOk`: `UserNamesOk` for component sources; instance names without `-` and signal
    names non-empty, not ending in `*`, without `-` for system sources) and every tree `loadFile` returns for it,
    the specification `Denote.denoteFile` accepts the same sources, consuming the same anonymous-sequence numbers,
    and — for every code table — an assignment satisfies the design read off the object tables **iff** it
    satisfies the design `d` the *sources* denote. -/
theorem designOf_sat_iff_of_load {b : Bundle} (hb : SysProofs.bundleNamesOk b = true) {fuel : Nat} {base : String}
    {args : Nat} {argKey pfx path : String} {includes : List String} {anon : Nat} {inst : Inst} {a' : Nat}
    (hload : Sys.loadFile b fuel base args argKey pfx path includes anon = .ok (inst, a')) :
    ∃ d ports, Denote.denoteFile b fuel base args argKey pfx path includes anon = .ok (d, ports, a') ∧
      ∀ (tbl : CodeTable) (asg : Var → Base), Des.Sat tbl (designOf inst) asg ↔ Des.Sat tbl d asg :=
  DesSys.tree_sat_iff hb hload

/-- **`des_equiv` (FULL).**  For every bundle of sources satisfying the name hypotheses `DesNamesOk` (M1) and
    `bundleNamesOk` (M2), every program `Sys.loadFile` accepts for it — a component, a system, a system of systems
    to any depth, any number of signals — with instance tree `inst`: the specification `Denote.denoteFile`
    accepts the same sources and assigns them a design `d` (consuming the same anonymous-sequence numbers), and for
    every code table in which `N` allows every base and every assignment `a` of the program's own domain
    variables: `a` extends to the signal sequences `S` and the auxiliary sequences `S-_WC` so as to satisfy the
    emitted `.des` document  **iff**  `a` extends to the signal sequences so as to satisfy the design `d` the
    *source* denotes.  No hypothesis on the object tables (`BlocksOk` is `blocksOk_of_load`) and none relating the
    tables to the source (`designOf_sat_iff_of_load`). -/
theorem des_equiv_of_load {b : Bundle} (hb : DesNamesOk b) (hb2 : SysProofs.bundleNamesOk b = true) {fuel : Nat}
    {base : String} {args : Nat} {argKey pfx path : String} {includes : List String} {anon : Nat} {inst : Inst}
    {a' : Nat} (hload : Sys.loadFile b fuel base args argKey pfx path includes anon = .ok (inst, a')) :
    ∃ d ports, Denote.denoteFile b fuel base args argKey pfx path includes anon = .ok (d, ports, a') ∧
      ∀ (tbl : CodeTable), (∀ x, allows tbl 'N' x) → ∀ a : Var → Base,
        (∃ a', (∀ v : Var, v.dom ∈ progDomains inst → a' v = a v) ∧ SatDes tbl (desDoc inst) a') ↔
        (∃ a'', (∀ v : Var, v.dom ∈ progDomains inst → a'' v = a v) ∧ Des.Sat tbl d a'') := by
  obtain ⟨d, ports, hd, hM2⟩ := designOf_sat_iff_of_load hb2 hload
  exact ⟨d, ports, hd, fun tbl hN a => des_equiv_of_load_partial hb hload tbl hN d (hM2 tbl) a⟩

/-- the same for a whole compilation unit, as the tool chain runs it (`entry` file, fuel 32, empty prefix): the
    design is `Denote.denoteTop` of the sources -/
theorem des_equiv_top {b : Bundle} (hb : DesNamesOk b) (hb2 : SysProofs.bundleNamesOk b = true) {entry : String}
    {args : Nat} {includes : List String} {anon : Nat} {inst : Inst} {a' : Nat}
    (hload : Sys.loadFile b 32 entry args "@" "" "." includes anon = .ok (inst, a')) :
    ∃ d, Denote.denoteTop b entry args includes anon = .ok d ∧
      ∀ (tbl : CodeTable), (∀ x, allows tbl 'N' x) → ∀ a : Var → Base,
        (∃ a', (∀ v : Var, v.dom ∈ progDomains inst → a' v = a v) ∧ SatDes tbl (desDoc inst) a') ↔
        (∃ a'', (∀ v : Var, v.dom ∈ progDomains inst → a'' v = a v) ∧ Des.Sat tbl d a'') := by
  obtain ⟨d, ports, hd, h⟩ := des_equiv_of_load hb hb2 hload
  refine ⟨d, ?_, h⟩
  simp [Denote.denoteTop, hd, Except.map]

/-- the two name hypotheses follow from one decidable check of the sources, `DesSys.desBundleOk`: every component
    source has `UserNamesOk` and `PortsDistinct`, every system source `sysNamesOk` and `SysNamesOk` -/
theorem des_equiv_of_load_checked {b : Bundle} (hb : DesSys.desBundleOk b = true) {fuel : Nat}
    {base : String} {args : Nat} {argKey pfx path : String} {includes : List String} {anon : Nat} {inst : Inst}
    {a' : Nat} (hload : Sys.loadFile b fuel base args argKey pfx path includes anon = .ok (inst, a')) :
    ∃ d ports, Denote.denoteFile b fuel base args argKey pfx path includes anon = .ok (d, ports, a') ∧
      ∀ (tbl : CodeTable), (∀ x, allows tbl 'N' x) → ∀ a : Var → Base,
        (∃ a', (∀ v : Var, v.dom ∈ progDomains inst → a' v = a v) ∧ SatDes tbl (desDoc inst) a') ↔
        (∃ a'', (∀ v : Var, v.dom ∈ progDomains inst → a'' v = a v) ∧ Des.Sat tbl d a'') :=
  des_equiv_of_load (DesSys.desBundleOk_names hb) (DesSys.desBundleOk_bundle hb) hload

end of_load

/-- in the generated DNA table `N` allows every base (hypothesis `hN` above) -/
theorem dna_N_allows_all : ∀ b, allows Generated.dnaTable 'N' b := by
  intro b; cases b <;> decide

/-! ### non-vacuity: a two-instance system with one starred binding -/

/-- template: `sequence x = 2N`, `sequence y = 2N`, strands `s1 = x`, `s2 = y`, structure `d = s1 + s2 : ((+))`,
    the second instance with a no-opt structure -/
def exComp (pfx : String) (opt : Dec) : Comp.St :=
  { name := "T", pfx := pfx,
    seqs := [⟨"x", false, false, 2, ['N', 'N'], [], [⟨"x", false, 2⟩], true⟩,
             ⟨"y", false, false, 2, ['S', 'N'], [], [⟨"y", false, 2⟩], true⟩,
             ⟨"z", false, false, 0, [], [], [⟨"z", false, 0⟩], true⟩],
    strands := [⟨"s1", false, 2, [⟨"x", false, 2, false⟩], [⟨"x", false, 2⟩], true⟩,
                ⟨"s2", false, 2, [⟨"y", true, 2, false⟩, ⟨"z", false, 0, false⟩], [⟨"y", true, 2⟩, ⟨"z", false, 0⟩], true⟩],
    structs := [⟨"d", opt, ["s1", "s2"], "((+))".toList, [⟨"x", false, 2⟩, ⟨"y", true, 2⟩, ⟨"z", false, 0⟩]⟩],
    outputSeqs := [⟨"x", false, 2, false⟩], outputStructs := [none] }

/-- `a = T(...) -> q`, `b = T(...) -> q*`: signal `q` is `a-x` and the reverse complement of `b-x` -/
def exSys : Inst :=
  .sys (.mk "." "top" "" [("T", "T")]
    [("q", [⟨.seq ⟨"x", false, 2, false⟩ [⟨"x", false, 2⟩], "a", false⟩,
            ⟨.seq ⟨"x", false, 2, false⟩ [⟨"x", false, 2⟩], "b", true⟩])]
    [("q", 2)]
    [("a", .comp (exComp "a-" ⟨['1'], []⟩)), ("b", .comp (exComp "b-" ⟨['0'], []⟩))] [] [⟨"q", false⟩])

example : desDoc exSys = [
    .struct "a-d" "((+))".toList, .seq "a-x" "NN".toList, .seq "a-y" "SN".toList,
    .assign "a-d" [⟨"a-x", false⟩, ⟨"a-y", true⟩], .bound "a-d" "1.000000",
    .struct "b-d" "((+))".toList, .seq "b-x" "NN".toList, .seq "b-y" "SN".toList,
    .assign "b-d" [⟨"b-x", false⟩, ⟨"b-y", true⟩],
    .seq "q" "NN".toList, .seq "q-_WC" "NN".toList,
    .struct "q-_Self" "((+))".toList, .assign "q-_Self" [⟨"q-_WC", false⟩, ⟨"q", false⟩],
    .struct "q-a-x" "((+))".toList, .assign "q-a-x" [⟨"q-_WC", false⟩, ⟨"a-x", false⟩],
    .struct "q-b-x" "((+))".toList, .assign "q-b-x" [⟨"q", false⟩, ⟨"b-x", false⟩]] := by decide

/-- the rendered lines are the lines `Sys.emitDesInst` prints -/
example : (desDoc exSys).map Line.render = Sys.emitDesInst exSys := by decide

/-- the hypotheses of the theorems hold for it -/
example : BlocksOk (blocksInst exSys) := by decide
example : wellFormed (desDoc exSys) = true := by decide

/-- the name hypotheses of `blocksOk_of_load` are satisfiable: the sources of `exSys` -/
def exTopSrc : SSrc :=
  { name := "top", params := [], inputs := [], outputs := [⟨"q", false⟩],
    stmts := [.imports [("T", none)], .component "a" "T" 0 [] [⟨"q", false⟩], .component "b" "T" 0 [] [⟨"q", true⟩]] }
def exTSrc : Comp.Src :=
  { name := "T", params := [], inputs := [], outputs := [⟨"x", false, none⟩],
    stmts := [.seq "x" [.nuc "2N".toList] none, .seq "y" [.nuc "S N".toList] none, .seq "z" [.nuc "".toList] none,
              .strand false "s1" [.ref "x" false] none, .strand false "s2" [.ref "y" true, .ref "z" false] none,
              .struct .default "d" ["s1", "s2"] false "((+))".toList] }
example : LoadInv.SysNamesOk exTopSrc = true := by decide
example : LoadInv.StmtNamesOk exTSrc = true ∧ LoadInv.PortsDistinct exTSrc = true := by decide +kernel
/-- `des_equiv_component_of_load` applies to `exTSrc`: the compiler accepts it under prefix `a-`, its document is
    that of the first instance of `exSys`, and C01's hypotheses hold -/
example : (Comp.load exTSrc 0 "a-" 0).toOption.map (fun r => compDoc r.1) =
    some (compDoc (exComp "a-" ⟨['1'], []⟩)) := by decide +kernel
example : UserNamesOk exTSrc = true ∧ CodesOk Generated.dnaTable exTSrc = true := by decide +kernel
/-- the hypothesis of `des_equiv_of_load_checked` (hence both hypotheses of `des_equiv_of_load`) holds for the
    bundle of these sources -/
def exBundle : Bundle :=
  { files := [("top.sys@", .sys exTopSrc), ("T.comp@a", .comp exTSrc), ("T.comp@b", .comp exTSrc)],
    exists_ := ["top.sys", "T.comp"] }
example : DesSys.desBundleOk exBundle = true := by decide +kernel
example : LoadInv.DesNamesOk exBundle ∧ SysProofs.bundleNamesOk exBundle = true :=
  ⟨DesSys.desBundleOk_names (by decide +kernel), DesSys.desBundleOk_bundle (by decide +kernel)⟩
/-- … and they are needed: a dash in an instance name, a signal named like an instance -/
example : LoadInv.SysNamesOk { exTopSrc with stmts := [.component "a-b" "T" 0 [] []] } = false := by decide
example : LoadInv.SysNamesOk { exTopSrc with stmts := [.component "q" "T" 0 [] [⟨"q", false⟩]] } = false := by decide

/-- positions: the zero-length `z` contributes nothing, the reversed `y` is laid down as `rc` -/
example : desPositions (desDoc exSys) "a-d" =
    [⟨⟨"a-x", 0⟩, false⟩, ⟨⟨"a-x", 1⟩, false⟩, ⟨⟨"a-y", 1⟩, true⟩, ⟨⟨"a-y", 0⟩, true⟩] := by decide
example : designPositions (designOf exSys) "a-d" = desPositions (desDoc exSys) "a-d" := by decide

/-- the links of the connector: `q-_WC` against `q` and `a-x` (equal binding), `q` against `b-x` (starred) -/
example : desLinks (desDoc exSys) = [
    (⟨⟨"a-x", 1⟩, false⟩, ⟨⟨"a-y", 1⟩, true⟩), (⟨⟨"a-x", 0⟩, false⟩, ⟨⟨"a-y", 0⟩, true⟩),
    (⟨⟨"b-x", 1⟩, false⟩, ⟨⟨"b-y", 1⟩, true⟩), (⟨⟨"b-x", 0⟩, false⟩, ⟨⟨"b-y", 0⟩, true⟩),
    (⟨⟨"q-_WC", 1⟩, false⟩, ⟨⟨"q", 0⟩, false⟩), (⟨⟨"q-_WC", 0⟩, false⟩, ⟨⟨"q", 1⟩, false⟩),
    (⟨⟨"q-_WC", 1⟩, false⟩, ⟨⟨"a-x", 0⟩, false⟩), (⟨⟨"q-_WC", 0⟩, false⟩, ⟨⟨"a-x", 1⟩, false⟩),
    (⟨⟨"q", 1⟩, false⟩, ⟨⟨"b-x", 0⟩, false⟩), (⟨⟨"q", 0⟩, false⟩, ⟨⟨"b-x", 1⟩, false⟩)] := by decide

/-- the source's `equals` entry for `q`: `[q, a-x, rc b-x]` -/
example : (designOf exSys).equals = [[fwd "q" 2, fwd "a-x" 2, rc (fwd "b-x" 2)]] := by decide

/-! ### non-vacuity of the `done` set (repair F17): one port bound to a signal as an input and as an output -/

/-- `exSys` with `a = T(q) -> q`: port `x` of instance `a` is bound to `q` twice, in the same orientation (the
    situation of `examples/David_CRN/Oscillator.sys`) -/
def exDup : Inst :=
  .sys (.mk "." "top" "" [("T", "T")]
    [("q", [⟨.seq ⟨"x", false, 2, false⟩ [⟨"x", false, 2⟩], "a", false⟩,
            ⟨.seq ⟨"x", false, 2, false⟩ [⟨"x", false, 2⟩], "b", true⟩,
            ⟨.seq ⟨"x", false, 2, false⟩ [⟨"x", false, 2⟩], "a", false⟩])]
    [("q", 2)]
    [("a", .comp (exComp "a-" ⟨['1'], []⟩)), ("b", .comp (exComp "b-" ⟨['0'], []⟩))] [] [⟨"q", false⟩])

/-- the connector `q-a-x` is listed once -/
example : signalDoc "" "q" 2
    [⟨.seq ⟨"x", false, 2, false⟩ [⟨"x", false, 2⟩], "a", false⟩,
     ⟨.seq ⟨"x", false, 2, false⟩ [⟨"x", false, 2⟩], "b", true⟩,
     ⟨.seq ⟨"x", false, 2, false⟩ [⟨"x", false, 2⟩], "a", false⟩] = [
    .seq "q" "NN".toList, .seq "q-_WC" "NN".toList,
    .struct "q-_Self" "((+))".toList, .assign "q-_Self" [⟨"q-_WC", false⟩, ⟨"q", false⟩],
    .struct "q-a-x" "((+))".toList, .assign "q-a-x" [⟨"q-_WC", false⟩, ⟨"a-x", false⟩],
    .struct "q-b-x" "((+))".toList, .assign "q-b-x" [⟨"q", false⟩, ⟨"b-x", false⟩]] := by decide
/-- the document of `exDup` is that of `exSys`, the lines `Sys.emitDesInst` prints; the design keeps all three
    regions -/
example : desDoc exDup = desDoc exSys := by decide
example : (desDoc exDup).map Line.render = Sys.emitDesInst exDup := by decide
example : (designOf exDup).equals = [[fwd "q" 2, fwd "a-x" 2, rc (fwd "b-x" 2), fwd "a-x" 2]] := by decide
/-- the hypotheses of the theorems hold for it (the repeated entries are the same entry), the document is well
    formed, and the side condition of `connectors_written_once` holds -/
example : BlocksOk (blocksInst exDup) := by decide
example : wellFormed (desDoc exDup) = true := by decide
example : ((structLines (desDoc exDup)).map (·.1)).Nodup := by decide
/-- the second clause of `BlockOk` for signals is needed: two different ports under one connector name (a
    super-sequence `x = y` and a sequence `x` of instance `a`) satisfy every other clause of `BlocksOk`, but the
    document mentions only the first (`q-a-x : q-_WC a-y`) while the design equates `q` with both -/
def exClash : List Block :=
  [Block.comp { (exComp "a-" ⟨['1'], []⟩) with structs := [], strands := [] },
   Block.signal "" "q" 2 [⟨.seq ⟨"x", false, 2, true⟩ [⟨"y", false, 2⟩], "a", false⟩,
                          ⟨.seq ⟨"x", false, 2, false⟩ [⟨"x", false, 2⟩], "a", false⟩]]
example : ¬ BlocksOk exClash := by decide
example : ((seqLines (docOf exClash)).map (·.1)).Nodup ∧ ((assignLines (docOf exClash)).map (·.1)).Nodup ∧
    ((designOfBlocks exClash).strands.map (·.1)).Nodup ∧
    ∀ e ∈ [(⟨.seq ⟨"x", false, 2, true⟩ [⟨"y", false, 2⟩], "a", false⟩ : SigEntry),
           ⟨.seq ⟨"x", false, 2, false⟩ [⟨"x", false, 2⟩], "a", false⟩],
      EntryOk (designOfBlocks exClash).domains "" 2 e := by decide
example : assignLines (docOf exClash) =
    [("q-_Self", [⟨"q-_WC", false⟩, ⟨"q", false⟩]), ("q-a-x", [⟨"q-_WC", false⟩, ⟨"a-y", false⟩])] ∧
    (designOfBlocks exClash).equals = [[fwd "q" 2, fwd "a-y" 2, fwd "a-x" 2]] := by decide
/-! ### non-vacuity of the `-_rc` suffix (repair F17b): one port bound to a signal plainly and starred -/

/-- `exSys` with `a = T(q*) -> q`: port `x` of instance `a` is bound to `q` plainly and starred -/
def exBoth : Inst :=
  .sys (.mk "." "top" "" [("T", "T")]
    [("q", [⟨.seq ⟨"x", false, 2, false⟩ [⟨"x", false, 2⟩], "a", true⟩,
            ⟨.seq ⟨"x", false, 2, false⟩ [⟨"x", false, 2⟩], "a", false⟩])]
    [("q", 2)]
    [("a", .comp (exComp "a-" ⟨['1'], []⟩))] [] [⟨"q", false⟩])

/-- one port bound plainly and starred: both connectors are written, they are called `q-a-x` and `q-a-x-_rc`, and
    the structure names are pairwise distinct -/
example : (structLines (signalDoc "" "q" 2
    [⟨.seq ⟨"x", false, 2, false⟩ [⟨"x", false, 2⟩], "a", false⟩,
     ⟨.seq ⟨"x", false, 2, false⟩ [⟨"x", false, 2⟩], "a", true⟩])).map (·.1) = ["q-_Self", "q-a-x", "q-a-x-_rc"] ∧
  ((structLines (signalDoc "" "q" 2
    [⟨.seq ⟨"x", false, 2, false⟩ [⟨"x", false, 2⟩], "a", false⟩,
     ⟨.seq ⟨"x", false, 2, false⟩ [⟨"x", false, 2⟩], "a", true⟩])).map (·.1)).Nodup := by decide
/-- the document of `exBoth` renders to the expected lines (the starred binding comes first in the table and is the
    one renamed), which are the lines `Sys.emitDesInst` prints -/
example : (desDoc exBoth).map Line.render = [
    "structure a-d = ((+))", "sequence a-x = NN", "sequence a-y = SN", "a-d : a-x a-y*", "a-d < 1.000000",
    "sequence q = NN", "sequence q-_WC = NN",
    "structure q-_Self = ((+))", "q-_Self : q-_WC q",
    "structure q-a-x-_rc = ((+))", "q-a-x-_rc : q a-x",
    "structure q-a-x = ((+))", "q-a-x : q-_WC a-x"] := by decide
example : (desDoc exBoth).map Line.render = Sys.emitDesInst exBoth := by decide
/-- the hypotheses of the `BlocksOk`-relative theorems hold for it and the document is well formed -/
example : BlocksOk (blocksInst exBoth) := by decide
example : wellFormed (desDoc exBoth) = true := by decide
example : (designOf exBoth).equals = [[fwd "q" 2, rc (fwd "a-x" 2), fwd "a-x" 2]] := by decide
/-- the side condition of `connectors_written_once` is needed: a third port whose sequence is called `x-_rc` (a
    legal sequence name) takes the name of the renamed connector -/
def exRcClash : List SigEntry :=
  [⟨.seq ⟨"x", false, 2, false⟩ [⟨"x", false, 2⟩], "a", false⟩,
   ⟨.seq ⟨"x", false, 2, false⟩ [⟨"x", false, 2⟩], "a", true⟩,
   ⟨.seq ⟨"x-_rc", false, 2, false⟩ [⟨"x-_rc", false, 2⟩], "a", false⟩]
example : (structLines (signalDoc "" "q" 2 exRcClash)).map (·.1) = ["q-_Self", "q-a-x", "q-a-x-_rc", "q-a-x-_rc"] ∧
    ¬ ((structLines (signalDoc "" "q" 2 exRcClash)).map (·.1)).Nodup := by decide

/-- the equivalence applies to it, with the generated table -/
example (a : Var → Base) :
    (∃ a', (∀ v : Var, v.dom ∈ ["a-x", "a-y", "b-x", "b-y"] → a' v = a v) ∧ SatDes Generated.dnaTable (desDoc exSys) a') ↔
    (∃ a'', (∀ v : Var, v.dom ∈ ["a-x", "a-y", "b-x", "b-y"] → a'' v = a v) ∧ Des.Sat Generated.dnaTable (designOf exSys) a'') :=
  des_equiv_partial exSys (by decide) Generated.dnaTable dna_N_allows_all a

end Pepper.C03
