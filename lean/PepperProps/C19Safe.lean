import PepperProofs.SsmChecked
import PepperProps.C19
/-!
# C19Safe — the modelled part of spuriousSSM.c makes no out-of-range array access (supports C19)

Model: `PepperModel/SsmChecked.lean`, the bounds-checked twin of `PepperModel/Ssm.lean`: every array read of `constrain`,
`constrain_single_fast`, `mutate` (with the lookup `freeloc[k]` of the drawn index), `test_consistency` (with the reads
of its error messages), the `nq` / `nbp` loops, the construction of `freeloc`, the save / restore loops over `oldS` and
`main` is `A[i]?`, every store checks its index; an out-of-range access is the result `oob ⟨array, index, site⟩`.
Index expressions are the C's (`wc[i]-1`, `eq[i]-1` in `Int`), guards in the C's order.

* **T1** `checked_refines_total` (+ one theorem per function): an `ok v` of a checked function is the value of the
  total function of `Ssm.lean`; so every theorem of C19 holds of the checked model (`program_output_good_checked`).
* **T2** `no_oob_under_contract`: for every triple with `contractB t`, every start sequence of length `N`, every
  stopping option, every event stream whose drawn indices obey `k < Nfree` (`EventsOk`: what `int_urn(0,Nfree-1)`
  guarantees) and whatever the score comparisons are, `programC` does not return `oob`.  `no_oob_under_bounds` needs
  only `Bounds t` (array lengths `N`, `wc[i] = -1 ∨ 1 ≤ wc[i] ≤ N`, `eq[i] ≤ N`) — these are the inputs the real loader
  would have to reject and does not.
* **T3** examples: outside the guard the checked model reports the access while the total model returns a value.

Tied to the binary on every run of the C19 check (section `[checked model]` of `harness/props/c19.py`).
Limits: extents are the logical ones (`N` cells; the real `malloc`s are longer); `int` overflow, the loader, the scoring
code, `randbasec`'s table read and output are not modelled.
-/
namespace Pepper.C19Safe.Props
open Pepper.Ssm Pepper.SsmChecked

/-- what `int_urn(0, Nfree-1)` guarantees of every drawn index -/
def EventsOk (t : Triple) (es : List EventC) : Prop := ∀ e ∈ es, e.k < (freeLocs t).length

/-! ### T1 — an `ok` result is the total model's result -/

/-- `constrain_single_fast` -/
theorem constrainSingleFast_refines {t : Triple} {S S' : Seq} {i : Nat} (h : constrainSingleFastC t S i = .ok S') :
    S' = constrainSingleFast t S i := constrainSingleFastC_ref h

/-- `constrain` -/
theorem constrain_refines {t : Triple} {S S' : Seq} (h : constrainC t S = .ok S') : S' = constrain t S :=
  constrainC_ref h

/-- `test_consistency` (the reads of the error messages do not influence the result) -/
theorem testConsistency_refines {t : Triple} {S : Seq} {b : Bool} (h : testConsistencyC t S = .ok b) :
    b = testConsistency t S := testConsistencyC_ref h

/-- the `freeloc` table: the array has `N` cells, its first `Nfree` cells are `freeLocs t`, the rest is the `calloc` zero -/
theorem freeloc_refines {t : Triple} {fn : List Nat × Nat} (h : freelocC t = .ok fn) :
    fn.1.length = t.N ∧ fn.2 = (freeLocs t).length ∧ ∀ k, fn.1.getD k 0 = (freeLocs t).getD k 0 :=
  let inv := freelocC_ref h
  ⟨inv.len, inv.nf, inv.get⟩

/-- `bmax` at loop entry (`strlen(S) = N`: the loader exits otherwise) -/
theorem effectiveBmax_refines {o : Opts} {t : Triple} {start : Seq} {b : Nat} (hl : start.length = t.N)
    (h : effectiveBmaxC o t start = .ok b) : b = effectiveBmax o t := effectiveBmaxC_ref hl h

/-- `mutate` (called with `Nfree > 0`): the drawn index was inside the table and the result is the total `mutate` at the
    looked-up position -/
theorem mutate_refines {t : Triple} {fl : List Nat} {nf : Nat} {S S' : Seq} {k : Nat} {b : Char} (hn : nf ≠ 0)
    (h : mutateC t fl nf S k b = .ok S') : k < fl.length ∧ S' = mutate t S (fl.getD k 0) b := mutateC_ref hn h

/-- one iteration of the search loop, with the save / restore loops over `oldS` -/
theorem step_refines {t : Triple} {fl : List Nat} {nf : Nat} {s s' : StateC} {e : EventC} (hn : nf ≠ 0)
    (hl : s.S.length = t.N) (h : stepC t fl nf s e = .ok s') :
    s'.toState = step t s.toState ⟨fl.getD e.k 0, e.base, e.cmp⟩ := (stepC_ref hn hl h).2.1

/-- the search loop -/
theorem run_refines {t : Triple} {p : Params} {fl : List Nat} {nf : Nat} {es : List EventC} {s s' : StateC}
    (hl : s.S.length = t.N) (h : runC t p fl nf s es = .ok s') :
    s'.toState = run t p nf s.toState (es.map (fun e => ⟨fl.getD e.k 0, e.base, e.cmp⟩)) := (runC_ref es s s' hl h).1

/-- **T1.** `main` after the loader: if the checked program returns `ok r` (no out-of-range access happened), then `r` is
    what the total model returns on the same inputs, each event's table index replaced by the looked-up position.
    Guard: the start sequence has length `N` (the loader exits otherwise). -/
theorem checked_refines_total {t : Triple} {o : Opts} {start : Seq} {es : List EventC} {r : Option Seq}
    (hl : start.length = t.N) (h : programC t o start es = .ok r) :
    r = program t o start (es.map (EventC.toEvent t)) := programC_ref hl h

/-! ### T2 — no out-of-range access under the contract -/

/-- `contractB` gives the bounds -/
theorem bounds_of_contractB {t : Triple} (hc : contractB t = true) : Bounds t :=
  Bounds.of_contract (of_decide_eq_true hc)

/-- `constrain` on a sequence of length `N` -/
theorem constrain_no_oob {t : Triple} (hc : contractB t = true) {S : Seq} (hS : S.length = t.N) :
    ∃ S', constrainC t S = .ok S' ∧ S'.length = t.N := constrainC_ok (bounds_of_contractB hc) hS

/-- `test_consistency` on a sequence of length `N` — *any* such sequence, also one that fails the test, so that the
    message reads `S[wc[i]]`, `S[eq[i]]` happen (they may touch the terminating NUL, never more) -/
theorem testConsistency_no_oob {t : Triple} (hc : contractB t = true) {S : Seq} (hS : S.length = t.N) :
    ∃ b, testConsistencyC t S = .ok b := testConsistencyC_isOk (bounds_of_contractB hc) hS

/-- the `freeloc` table is built without an out-of-range store (`Nfree` never exceeds the loop counter) -/
theorem freeloc_no_oob {t : Triple} (hc : contractB t = true) : ∃ fn, freelocC t = .ok fn :=
  freelocC_isOk (bounds_of_contractB hc)

/-- `mutate` with a drawn index `k < Nfree` -/
theorem mutate_no_oob {t : Triple} (hc : contractB t = true) {fn : List Nat × Nat} (hf : freelocC t = .ok fn)
    {S : Seq} (hS : S.length = t.N) {k : Nat} (hk : k < fn.2) (b : Char) :
    ∃ S', mutateC t fn.1 fn.2 S k b = .ok S' ∧ S'.length = t.N :=
  let tb := tableOk_of_inv (freelocC_ref hf)
  mutateC_ok (bounds_of_contractB hc) b (tb k hk).1 (tb k hk).2 hS

/-- one loop iteration, whatever the comparison outcome -/
theorem step_no_oob {t : Triple} (hc : contractB t = true) {fn : List Nat × Nat} (hf : freelocC t = .ok fn)
    {s : StateC} (hS : s.S.length = t.N) (hO : s.oldS.length = t.N) {e : EventC} (hk : e.k < fn.2) :
    ∃ s', stepC t fn.1 fn.2 s e = .ok s' ∧ s'.S.length = t.N ∧ s'.oldS.length = t.N :=
  stepC_ok (bounds_of_contractB hc) (tableOk_of_inv (freelocC_ref hf)) hk hS hO

/-- **T2 under the minimal guard.** -/
theorem no_oob_under_bounds {t : Triple} (hb : Bounds t) (o : Opts) {start : Seq} (hl : start.length = t.N)
    {es : List EventC} (he : EventsOk t es) : ∃ r, programC t o start es = .ok r := programC_ok hb o hl he

/-- **T2.** On every triple satisfying the contract, from every start sequence of the input length, with every
    stopping option, for every stream of events whose drawn table indices are `< Nfree` — any bases, any score
    comparison outcomes, any length — the checked program does not make an out-of-range access: not in the first
    `constrain` / `test_consistency`, not while building `freeloc`, in no iteration of the loop (save, `mutate` with the
    `freeloc[k]` lookup, `constrain_single_fast`, restore), not in the final `constrain` / `test_consistency`. -/
theorem no_oob_under_contract {t : Triple} (hc : contractB t = true) (o : Opts) {start : Seq} (hl : start.length = t.N)
    {es : List EventC} (he : EventsOk t es) : ∃ r, programC t o start es = .ok r :=
  no_oob_under_bounds (bounds_of_contractB hc) o hl he

/-- T1 + T2 + C19: under the hypotheses of `C19.program_output_good` (admissible start, every event a legal outcome of
    the two draws) the *checked* program returns `ok (some out)` with `out` obeying every constraint. -/
theorem program_output_good_checked {t : Triple} (hc : contractB t = true) (o : Opts) {start : Seq}
    (hs : StartOK t start) {es : List EventC} (he : EventsOk t es)
    (hv : ∀ e ∈ es, e.base ∈ choices (t.stAt ((freeLocs t).getD e.k 0))) :
    ∃ out, programC t o start es = .ok (some out) ∧ Good t out ∧ out.length = t.N := by
  obtain ⟨r, hr⟩ := no_oob_under_contract hc o hs.1 he
  have hv' : ∀ e ∈ es.map (EventC.toEvent t), validEvent t e = true := by
    intro e' he'
    obtain ⟨e, hm, rfl⟩ := List.mem_map.1 he'
    have hk := he e hm
    have hmem : (freeLocs t).getD e.k 0 ∈ freeLocs t := by
      rw [List.getD_eq_getElem?_getD, List.getElem?_eq_getElem hk]
      exact List.getElem_mem hk
    simp only [validEvent, EventC.toEvent, Bool.and_eq_true, List.contains_iff_mem]
    exact ⟨hmem, hv e hm⟩
  obtain ⟨out, h1, h2, h3⟩ := Pepper.C19.program_output_good hc o hs (es.map (EventC.toEvent t)) hv'
  have := checked_refines_total hs.1 hr
  rw [h1] at this
  exact ⟨out, by rw [hr, this], h2, h3⟩

/-! ### T3 — outside the guard; non-vacuity -/

/-- two unconstrained free positions: `Nfree = N = 2` -/
abbrev exNN : Triple := { st := "NN".toList, eq := [1, 2], wc := [-1, -1] }

example : contractB exNN = true ∧ freeLocs exNN = [0, 1] := by decide

/-- the off-by-one `int_urn(0,Nfree)` (a seeded bug of the mutation tests): the draw `k = Nfree` reads `freeloc[2]` of a
    2-cell array — the checked model reports it — -/
example : programC exNN { bmax := some 5 } "AC".toList [⟨2, 'C', 0⟩] = .oob ⟨.freeloc, 2, .mutate⟩ := by decide

/-- — while the total model's default turns the same draw into "position 0" and prints a sequence -/
example : program exNN { bmax := some 5 } "AC".toList [EventC.toEvent exNN ⟨2, 'C', 0⟩] = some "CC".toList := by decide

/-- when `Nfree < N` the same off-by-one stays inside the `calloc(N)` array (it reads the zero behind the table and
    mutates position 0): not a memory error, neither in C nor here; it is the `Good`-ness theorems that do not
    cover that event (`EventsOk` fails) -/
example : freeLocs Pepper.C19.ex1 = [0, 1, 2, 3] ∧
    (programC Pepper.C19.ex1 { bmax := some 5 } "AGCA TGCT".toList [⟨4, 'C', 0⟩]).isOob = false := by decide

/-- a `wc` entry `N+1` (the loader accepts any positive value): `test_consistency` reads `wc[wc[0]-1] = wc[2]` of a
    2-cell array; the total model reads its default `-1` there and reports a clean `exit(-1)` -/
example : programC { exNN with wc := [3, -1] } {} "AC".toList [] = .oob ⟨.wc, 2, .testConsistency1⟩ ∧
    program { exNN with wc := [3, -1] } {} "AC".toList [] = none := by decide

/-- an `eq` entry `N+1`: `eq[eq[1]-1] = eq[2]` -/
example : programC { exNN with eq := [1, 3] } {} "AC".toList [] = .oob ⟨.eq, 2, .testConsistency1⟩ ∧
    program { exNN with eq := [1, 3] } {} "AC".toList [] = none := by decide

/-- a negative index: `wc[0] = 0` (the real loader rejects `0`; the functions themselves would read `wc[-1]`); the total
    model's `wcIx` turns it into position `0` -/
example : testConsistencyC { exNN with wc := [0, -1] } "AC".toList = .oob ⟨.wc, -1, .testConsistency1⟩ ∧
    ({ exNN with wc := [0, -1] } : Triple).wcIx 0 = 0 := by decide

/-- a start sequence shorter than `N` (the loader exits on it): `constrain` reads `S[1]` -/
example : (constrainC exNN "A".toList).isOob = true ∧ (constrain exNN "A".toList).length = 1 := by decide

/-- the guards of T2 on these inputs: `Bounds` fails for the broken triples, `EventsOk` for the draw `k = Nfree` -/
example : ¬ Bounds { exNN with wc := [3, -1] } ∧ ¬ Bounds { exNN with eq := [1, 3] } ∧ Bounds exNN ∧
    ¬ EventsOk exNN [⟨2, 'C', 0⟩] := by
  refine ⟨by decide, by decide, by decide, ?_⟩
  intro h
  exact absurd (h _ List.mem_cons_self) (by decide)

/-- T2 is not vacuous: the run of `C19.ex1` (trace of the real binary, seed 5, `bmax=5`; `freeloc = [0,1,2,3]`, so
    table index = position) goes through the checked program, including a rejected move (restore loop) -/
example : contractB Pepper.C19.ex1 = true ∧
    programC Pepper.C19.ex1 { bmax := some 5 } "AGCA TGCT".toList
      [⟨3, 'T', 1⟩, ⟨1, 'A', 0⟩, ⟨3, 'T', 0⟩, ⟨0, 'C', 0⟩, ⟨2, 'G', 0⟩, ⟨2, 'C', 0⟩] = .ok (some "CAGT ACTG".toList) := by
  decide

/-- a failing self-check on a consistent triple reads the NUL terminator in its message (`S[wc[i]]` with `wc[i] = N`)
    and nothing beyond: `test_consistency` answers `false`, no `oob` -/
example : testConsistencyC Pepper.C19.ex1 "AAAA AAAA".toList = .ok false := by decide

end Pepper.C19Safe.Props
