import PepperModel.Generated.Tables
import PepperProofs.Finish
import PepperProofs.EndToEndMain
/-!
# C06 — any valid design flows through to finished sequences that satisfy the source

"For every accepted program and every nucleotide assignment that satisfies the emitted constraint arrays, loading the
assignment, writing the .mfe design and finishing against the saved compiler state succeeds, and the resulting sequences
satisfy the source program: every named sequence matches its constraint, starred sequences are reverse complements,
every strand and super-sequence is the concatenation of its domains, every target base pair is Watson-Crick, and ports
bound to one signal agree.  The .seqs file lists every sequence, strand and structure and the strands-to-order file
exactly the non-dummy strands."

**Part 2 of this file is the composition** (`end_to_end`, `end_to_end_component`): the chain
compile (`Sys.loadFile` / `Comp.load`, C01/C02) → emitted PIL → `Pil.load` → `getConstraints` (C04/C15) →
ANY string with `ArraysGood a nts` (this replaces the designer; C05/C19 say the real one delivers such a string) →
`Mfe.processResults` → `Mfe.output` → `Finish.apply` on the saved tree → `SatSrc` against the design the SOURCE
denotes (`Denote.denoteFile`).  Vocabulary (`ArraysGood`, `spell`, `letter`/`spellT`, `Entries`, `SatSrc`, `mfeRecs`)
in `PepperProofs/EndToEnd.lean`; stage lemmas in `PepperProofs/EndToEndAsg.lean` (arrays ↦ assignment),
`EndToEndLayout(T).lean` (where the strands sit on the line), `EndToEndMfe.lean` (`process_results`, `output`),
`EndToEndTree.lean` (the saved tree sits in the loaded specification), `EndToEndFinish.lean` (`apply_design`),
`EndToEndMain.lean` (composition).

What is proved at FULL strength: `end_to_end` (systems to any depth) and `end_to_end_component`, strand layout (the
default of `pepper-design-spurious`), and `end_to_end_struct` (structure layout, when every strand is non-empty and
occurs in a structure — otherwise `get_constraints` itself raises).
Hypotheses: the decidable bundle hypotheses of C01/C02 (`bundleOk`), and `MfeNamesDistinct spec` — the `.mfe` file has
ONE namespace for structures, sequences and starred sequences; without it the property is FALSE (known finding F13:
`sequence X`, `structure X`; the harness keeps the probe).  For compiled trees it reduces to the genuine content of
F13, `StructSeqApart spec`: no structure is named like a (starred) sequence (`mfe_names_distinct_of_compile`).  Two facts a reader should know, both visible in `SatSrc`:
* an UNDESIGNED sequence (one that lies on no strand) keeps its template in the `.mfe` and hence in the `.seqs` file:
  `spellT` writes the base on designed positions and the template code elsewhere;
* signal connector sequences are part of the design (`d.seqs`) but not of the saved tree, so they have no entry:
  the entry clauses run over the entries of `out` that are named in `d`.

The text level: the theorems of this file end with `Finish.apply` on the record list (`mfeLines` ↔ `mfeRecs` ↔
`mfeDesign`).  **Part 3 is `PepperProps/C06Text.lean`** (a file of its own because `ParsePil.lean` imports this one):
`end_to_end_text*` state the same results for `Finish.finishText` on the rendered TEXT of the records, the readability
of the records (`wfRec`: name alphabet, no empty sequence, letters in the reader's alphabet) being derived from the
compile (`mfeRecs_readable`) through `text_level_partial` below; there the GC-content field of a record is an arbitrary
valid float token (the model's `Mfe.output` writes the opaque token `GC`).  **Part 4 is `PepperProps/C06Gc.lean`**: Python's
`"%f" % (count / length)` is modelled exactly (`PepperModel/GcFloat.lean`), `Mfe.outputGc` writes the whole text of the file,
and `C06Gc.Props.text_level` / `end_to_end_text_gc` state the text level for THAT text, with no token left free.

**Part 1** is the finish stage on its own (`Relations`, `CompRel`, `AtomOk`, `IsConcat`, `IsJoin`, `render`,
`finishText` in `PepperProofs/Finish.lean`) and the two file-listing clauses.
-/
namespace Pepper.C06
open Pepper Pepper.Finish Pepper.Comp Pepper.Sys

/-- The finish stage alone — PARTIAL as a statement of C06 (missing: template membership and Watson–Crick pairing of
    target pairs, which come from the constraint arrays; the full statement is `end_to_end` below).  If finishing succeeds, the finished sequences satisfy the saved system's
    relations (`Relations`): every non-dummy atomic sequence has its declared length and its starred view is
    its reverse complement, every super-sequence and strand is the concatenation of its domains
    (reverse-complemented where referenced reversed), every structure is the `+`-join of its strands and
    equals the structure's record in the design. -/
theorem finish_satisfies_partial {t : CodeTable} {inst : Inst} {d : List (List Char × List Char)} {out : Out}
    (h : apply t inst d = .ok out) : Relations t inst d out :=
  apply_relations h

/-- the same, entry by entry, on a well-formed tree: the `.seqs` entry of every non-dummy atomic sequence is
    the designed sequence of that name, of the declared length, with the starred record its complement -/
theorem finished_atomics {t : CodeTable} {inst : Inst} {d : List (List Char × List Char)} {out : Out}
    (hw : wfB inst = true) (h : apply t inst d = .ok out) :
    ∀ s ∈ compsOf 64 inst, ∀ e ∈ s.baseSeqs, e.len ≠ 0 →
      ∃ v, (s.pfx ++ e.name, v) ∈ out.seqs ∧ lookupLast d (s.pfx ++ e.name).toList = some v ∧
        v.length = e.len ∧ t.wcStr v = lookupLast d (s.pfx ++ e.name ++ "*").toList :=
  (apply_relations h).atomic_entries hw

/-- Finishing SUCCEEDS on every design that satisfies the relations (the converse of
    `finish_satisfies_partial`): a valid design is never refused. -/
theorem valid_design_accepted {t : CodeTable} {inst : Inst} {d : List (List Char × List Char)} {out : Out}
    (h : Relations t inst d out) : apply t inst d = .ok out :=
  apply_ok_iff_relations.2 h

/-- … and going through the design FILE changes nothing: for well-formed records written the way
    `Convert.output` writes them, finishing the text is finishing the record map. -/
theorem through_the_file {t : CodeTable} {α : List Char} (hα : okAlpha α = true) {total : List Char}
    (ht : okWord isNumChar total = true) (hv : validFloat total = true)
    (rs : List (List Char × Rec)) (hrs : ∀ x ∈ rs, wfRec α x = true) (inst : Inst) (out : Out) :
    finishText t α inst (render rs total) = .ok out ↔
      Relations t inst (rs.map (fun x => (x.2.name, x.2.seq))) out := by
  rw [finishText_ok_iff, readDesign_render hα ht hv rs hrs, ← apply_ok_iff_relations]
  simp

/-- The `.seqs` file lists every sequence, every strand and every structure of the tree, in component order:
    it is the three headed blocks, and the names in the blocks are exactly the full names of the saved
    system's sequences (atomic and super, dummy ones included, as `finish` writes them), strands, structures. -/
theorem seqs_file_lists_all {t : CodeTable} {inst : Inst} {d : List (List Char × List Char)} {out : Out}
    (h : apply t inst d = .ok out) :
    seqsFile out =
      ["# Sequences"] ++ out.seqs.map (fun x => "sequence " ++ x.1 ++ " = " ++ String.ofList x.2)
      ++ ["# Strands"] ++ out.strands.map (fun x => "strand " ++ x.1 ++ " = " ++ String.ofList x.2.2)
      ++ ["# Structures"] ++ out.structs.map (fun x => "structure " ++ x.1 ++ " = " ++ String.ofList x.2) ∧
    out.seqs.map (·.1) = (compsOf 64 inst).flatMap (fun s => s.seqs.map (fun e => s.pfx ++ e.name)) ∧
    out.strands.map (·.1) = (compsOf 64 inst).flatMap (fun s => s.strands.map (fun e => s.pfx ++ e.name)) ∧
    out.structs.map (·.1) = (compsOf 64 inst).flatMap (fun s => s.structs.map (fun e => s.pfx ++ e.name)) := by
  have hr := apply_relations h
  exact ⟨rfl, hr.seq_names, hr.strand_names, hr.struct_names⟩

/-- The strands-to-order file lists exactly the non-dummy strands: one line per written strand whose dummy
    flag is off, and the names on those lines are, in order, the full names of the saved system's non-dummy
    strands. -/
theorem strands_file_exact {t : CodeTable} {inst : Inst} {d : List (List Char × List Char)} {out : Out}
    (h : apply t inst d = .ok out) :
    strandsFile out =
      (out.strands.filter (fun x => !x.2.1)).map (fun x => "strand " ++ x.1 ++ "\t" ++ String.ofList x.2.2) ∧
    (out.strands.filter (fun x => !x.2.1)).map (·.1) =
      (compsOf 64 inst).flatMap (fun s =>
        (s.strands.filter (fun e => !e.dummy)).map (fun e => s.pfx ++ e.name)) :=
  ⟨rfl, (apply_relations h).real_strand_names⟩

/-! ### non-vacuity: a component with a dummy strand and a zero-length domain -/

def exComp : Comp.St :=
  { name := "c", pfx := "c-",
    seqs := [⟨"a", false, false, 3, "NNN".toList, [], [⟨"a", false, 3⟩], true⟩,
             ⟨"z", false, false, 0, [], [], [⟨"z", false, 0⟩], true⟩,
             ⟨"b", false, false, 2, "NN".toList, [], [⟨"b", false, 2⟩], true⟩,
             ⟨"ab", true, false, 5, [], [⟨"a", false, 3, false⟩, ⟨"z", false, 0, false⟩, ⟨"b", true, 2, false⟩],
               [⟨"a", false, 3⟩, ⟨"z", false, 0⟩, ⟨"b", true, 2⟩], false⟩],
    strands := [⟨"S", false, 5, [⟨"ab", false, 5, true⟩], [⟨"a", false, 3⟩, ⟨"z", false, 0⟩, ⟨"b", true, 2⟩], true⟩,
                ⟨"D", true, 3, [⟨"a", true, 3, false⟩], [⟨"a", true, 3⟩], true⟩],
    structs := [⟨"T", ⟨['1'], []⟩, ["S", "D"], ".....+...".toList, []⟩] }

def exInst : Inst := .sys (.mk "" "top" "" [] [] [] [("c", .comp exComp)] [] [])

def exD : List (List Char × List Char) :=
  [("c-T".toList, "ACGAA+CGT".toList), ("c-a".toList, "ACG".toList), ("c-a*".toList, "CGT".toList),
   ("c-b".toList, "TT".toList), ("c-b*".toList, "AA".toList)]

example : wfB exInst = true := by decide

example : apply Generated.dnaTable exInst exD =
    .ok ⟨[("c-a", "ACG".toList), ("c-z", []), ("c-b", "TT".toList), ("c-ab", "ACGAA".toList)],
         [("c-S", false, "ACGAA".toList), ("c-D", true, "CGT".toList)],
         [("c-T", "ACGAA+CGT".toList)]⟩ := by decide

example : (apply Generated.dnaTable exInst exD).toOption.map seqsFile = some
    ["# Sequences", "sequence c-a = ACG", "sequence c-z = ", "sequence c-b = TT", "sequence c-ab = ACGAA",
     "# Strands", "strand c-S = ACGAA", "strand c-D = CGT", "# Structures", "structure c-T = ACGAA+CGT"] := by
  decide +kernel

example : (apply Generated.dnaTable exInst exD).toOption.map strandsFile = some ["strand c-S\tACGAA"] := by
  decide +kernel

end Pepper.C06

/-! # Part 2 — the composition -/
namespace Pepper.C06
open Pepper Pepper.Pil Pepper.ConstraintGen Pepper.LinkSpec Pepper.EndToEnd

/-! ### the stage lemmas, each usable on its own -/

/-- **Stage 1 (arrays ↦ assignment), both layouts.**  For a document the reader accepts, arrays returned by
    `get_constraints` (after a non-raising seeding `hs`/`hb`, a theorem in the strand layout) and ANY nucleotide string
    that satisfies them (`ArraysGood`): there is an assignment of bases to ALL domain positions that satisfies the
    specification — every position in its template's set, every `equal` line position-wise equal, every base pair
    Watson–Crick (`LinkSpec.Sat`) — and whose value at the nucleotide sitting at every non-blank index `i` is `nts[i]`.
    (Two indices carrying linked nucleotides share `eq[·]` / are joined by `wc[·]` — C04 `arrays_exact`; positions on
    no strand get a base of their class by C15's core.) -/
theorem assignment_of_good {mode : Layout} {stmts : List Stmt} {spec : Spec} {s : Seeds} {c : Cons} {a : Arrays}
    {nts : List Char} (hload : Pil.load Generated.nupackTable stmts {} = .ok spec)
    (hs : seeds mode spec = .ok s) (hb : build s = .ok c) (ha : getConstraints mode spec = .ok a)
    (hg : ArraysGood a nts) :
    ∃ asg : Var → Base, Sat Generated.pilTable (Pil.denote spec) asg ∧
      ∀ (i : Nat) (m : Nuc), denOf mode spec i = some m → (∃ ch, a.2.2[i]? = some (some ch)) →
        nts[i]? = some (val asg m).toChar :=
  EndToEnd.assignment_of_good hload hs hb ha hg

/-- **Layout (strand mode).**  Every strand has a start in `strand_start`, and the string read there spells the strand
    under an assignment that reads the letters of the non-blank indices. -/
theorem strands_read_back {stmts : List Stmt} {spec : Spec}
    (hload : Pil.load Generated.nupackTable stmts {} = .ok spec) {a : Arrays}
    (ha : getConstraints .strand spec = .ok a) {nts : List Char} {asg : Var → Base}
    (hasg : ∀ (i : Nat) (m : Nuc), denOf .strand spec i = some m → (∃ ch, a.2.2[i]? = some (some ch)) →
      nts[i]? = some (val asg m).toChar) :
    StartOk spec (startOf .strand spec) nts asg :=
  startOk_strand hload ha hasg

/-- **Stage 2 (`process_results`).**  On a well-formed specification, for any `strand_start` and string such that every
    strand's slice spells the strand (`StartOk`): `process_results` raises none of "designed with 2 different
    sequences", "length mismatch", a letter without complement, an index outside the string; it collects the strands'
    strings, and leaves a `Good` state: every set sequence spells its nucleotides under `asg`, and the atomic sequence
    of every position that lies on a strand is set. -/
theorem processResults_ok {t : CodeTable} (hB : complBases t = true) {spec : Spec} (wf : SpecWF spec)
    {asg : Var → Base} {start : StrandObj → Option Nat} {nts : List Char} (hst : StartOk spec start nts asg) :
    ∃ a, Mfe.processResults t spec start nts =
        .ok (a, spec.strands.map (fun st => (st.name, spell asg (nucsOfBases st.bases)))) ∧ Good spec asg a :=
  EndToEnd.processResults_ok hB wf hst

/-- **Stage 3 (`output`, `findmfe=False`).**  After `process_results`, `output` succeeds and writes exactly the records
    `mfeRecs` (as the lines `mfeLines`: `Finish.renderLines` of the records with the opaque token `GC` in the GC-content
    field): one record per structure — the `+`-join of its strands' letters —, then per sequence its letters (`spellT`:
    designed bases, or the template where the sequence lies on no strand) and the starred record with their reverse
    complement.  This step is stated on the record list; the text level is `text_level_partial`. -/
theorem output_ok {t : CodeTable} (hl : t.lawful = true) (hB : complBases t = true) {spec : Spec} (wf : SpecWF spec)
    (ok : SpecCodes t spec) {asg : Var → Base} {a : Mfe.Assigned} (hg : Good spec asg a) :
    Mfe.output t spec a (spec.strands.map (fun st => (st.name, spell asg (nucsOfBases st.bases)))) =
      some (mfeLines t spec asg) :=
  EndToEnd.output_ok hl hB wf ok hg

/-- **The saved tree sits in the loaded specification** (the correspondence between the compiler-side tables `Inst` and
    the designer-side `Spec = Pil.load (instStmts inst)`): every sequence of non-zero length, every strand and every
    structure of every component of the tree is found in the specification, under its full name, as the PIL object of
    the table entry (`pilObj`, `pilStrand`, `pilStruct`: same lengths, item lists, `base_seqs`). -/
theorem tree_in_spec {tbl : CodeTable} {Q : Sys.SSrc → Prop} {pfx : String} {inst : Sys.Inst}
    (hL : LoadInv.Loaded (fun c => LoadInv.StmtNamesOk c = true ∧ Comp.CodesOk tbl c = true) Q pfx inst)
    {spec : Spec} (hload : Pil.load tbl (Emit.instStmts inst) {} = .ok spec) : TreeIn spec inst :=
  treeIn_of_load hL hload

/-- **Stage 4 (`finish`).**  `apply_design` on the saved tree accepts the `name ↦ sequence` list of the records
    `mfeRecs` (via C17 `accepts_exactly_consistent`: the `Relations` hold), provided the names written into the `.mfe`
    file are pairwise distinct (`MfeNamesDistinct`, F13); and what it writes spells the design of the specification
    (`Entries`). -/
theorem finish_ok {t tF : CodeTable} (hl : t.lawful = true) (hB : complBases t = true) (hc : tF.compl = t.compl)
    {spec : Spec} (wf : SpecWF spec) (ok : SpecCodes t spec) (hn : MfeNamesDistinct spec) {inst : Sys.Inst}
    (hin : TreeIn spec inst) (asg : Var → Base) :
    ∃ out, Finish.apply tF inst (mfeDesign t spec asg) = .ok out ∧ Entries t (Pil.denote spec) asg out :=
  EndToEnd.finish_ok hl hB hc wf ok hn hin asg

/-- `ArraysGood` is checkable: the executable `arraysGoodB` implies it -/
theorem arraysGood_checkable {a : Arrays} {nts : List Char} (h : arraysGoodB a nts = true) : ArraysGood a nts :=
  arraysGood_of_check h

/-- **Every target base pair is Watson–Crick**, read off the finished output: for a structure of the design and its
    entry in the output, with the strand breaks `+` removed, the letters at the two ends of every base pair of the
    structure's target are complementary bases. -/
theorem target_pairs_watson_crick {t : CodeTable} {d : Design} {asg : Var → Base} {out : Finish.Out}
    (hs : Sat t d asg) (he : Entries t d asg out) {sd : StructD} (hsd : sd ∈ d.structs) {str : List Char}
    (hm : (sd.name, str) ∈ out.structs) :
    ∀ ij ∈ pairs sd.struct, ∀ ci cj : Char, (str.filter (· != '+'))[ij.1]? = some ci →
      (str.filter (· != '+'))[ij.2]? = some cj → ∃ b : Base, ci = b.toChar ∧ cj = b.compl.toChar :=
  target_pairs_wc hs he hsd hm

/-! ### the composition -/

/-- **C06, end to end (systems to any depth; strand layout).**  For every bundle of sources satisfying the decidable
    hypotheses of C02 (`bundleOk`), every instance tree `load_file` returns, the specification its emitted PIL loads to
    (with pairwise distinct `.mfe` names, F13), the arrays `get_constraints` returns for it and EVERY nucleotide string
    `nts` that satisfies them:
    * the source denotes a design `d` (`denoteFile`);
    * `process_results nts` succeeds (`assigned`: the sequences' state, and the strands' strings);
    * `output` writes exactly the records `mfeRecs … asg`;
    * `apply_design` on the saved tree accepts their `name ↦ sequence` list, giving `out`;
    * **`SatSrc`**: the assignment `asg` of bases to the domain positions of `d` satisfies `d` — every position is
      allowed by its template, every `equals` entry (the ports bound to one signal, with the signal) is position-wise
      equal, every base pair of every structure's target is Watson–Crick — and the entries of `out` named in `d` are
      what `asg` spells (`Entries`: strands and structures exactly, complemented where starred, concatenated in domain
      order; sequences with the template on positions that lie on no strand);
    * the `.seqs` file lists every sequence, strand and structure of the tree and the strands-to-order file exactly
      the non-dummy strands (names, in component order; the files are these blocks by definition, `seqs_file_lists_all`,
      `strands_file_exact`). -/
theorem end_to_end {b : Sys.Bundle} {fuel : Nat} {base : String} {args : Nat} {argKey pfx path : String}
    {includes : List String} {anon : Nat} {inst : Sys.Inst} {a' : Nat}
    (hfile : Sys.loadFile b fuel base args argKey pfx path includes anon = .ok (inst, a'))
    (hb : SysProofs.bundleOk Generated.nupackTable b = true)
    {spec : Spec} (hload : Pil.load Generated.nupackTable (Emit.instStmts inst) {} = .ok spec)
    (hn : MfeNamesDistinct spec) {a : Arrays} (ha : getConstraints .strand spec = .ok a) {nts : List Char}
    (hg : ArraysGood a nts) :
    ∃ (d : Design) (ports : List (List Nuc × Bool)) (asg : Var → Base) (assigned : Mfe.Assigned) (out : Finish.Out),
      Denote.denoteFile b fuel base args argKey pfx path includes anon = .ok (d, ports, a') ∧
      Mfe.processResults Generated.pilTable spec (startOf .strand spec) nts = .ok (assigned, strandSeqs spec asg) ∧
      Mfe.output Generated.pilTable spec assigned (strandSeqs spec asg) = some (mfeLines Generated.pilTable spec asg) ∧
      Finish.apply Generated.dnaTable inst (mfeDesign Generated.pilTable spec asg) = .ok out ∧
      Sat Generated.pilTable d asg ∧ Entries Generated.pilTable d asg out ∧
      out.seqs.map (·.1) = (Finish.compsOf 64 inst).flatMap (fun s => s.seqs.map (fun e => s.pfx ++ e.name)) ∧
      out.strands.map (·.1) = (Finish.compsOf 64 inst).flatMap (fun s => s.strands.map (fun e => s.pfx ++ e.name)) ∧
      out.structs.map (·.1) = (Finish.compsOf 64 inst).flatMap (fun s => s.structs.map (fun e => s.pfx ++ e.name)) ∧
      (out.strands.filter (fun x => !x.2.1)).map (·.1) =
        (Finish.compsOf 64 inst).flatMap (fun s => (s.strands.filter (fun e => !e.dummy)).map (fun e => s.pfx ++ e.name)) := by
  obtain ⟨spec', d, ports, hload', hden, hrest⟩ := end_to_end_tree hfile hb
  rw [hload] at hload'
  cases hload'
  obtain ⟨asg, assigned, out, hpr, hout, hap, hsat, hent⟩ := hrest hn a ha nts hg
  have hl := seqs_file_lists_all hap
  exact ⟨d, ports, asg, assigned, out, hden, hpr, hout, hap, hsat, hent, hl.2.1, hl.2.2.1, hl.2.2.2,
    (strands_file_exact hap).2⟩

/-- **C06, end to end, in the property's words** (no assignment in the statement): under the hypotheses of
    `end_to_end`, loading the string succeeds, `output` writes the lines of a record list `R`, finishing the saved tree
    against `R`'s `name ↦ sequence` list succeeds, and the finished output satisfies the source (`SatSrc`). -/
theorem end_to_end_satSrc {b : Sys.Bundle} {fuel : Nat} {base : String} {args : Nat} {argKey pfx path : String}
    {includes : List String} {anon : Nat} {inst : Sys.Inst} {a' : Nat}
    (hfile : Sys.loadFile b fuel base args argKey pfx path includes anon = .ok (inst, a'))
    (hb : SysProofs.bundleOk Generated.nupackTable b = true)
    {spec : Spec} (hload : Pil.load Generated.nupackTable (Emit.instStmts inst) {} = .ok spec)
    (hn : MfeNamesDistinct spec) {a : Arrays} (ha : getConstraints .strand spec = .ok a) {nts : List Char}
    (hg : ArraysGood a nts) :
    ∃ (d : Design) (ports : List (List Nuc × Bool)) (assigned : Mfe.Assigned) (strands : List (String × List Char))
      (R : List (List Char × Finish.Rec)) (out : Finish.Out),
      Denote.denoteFile b fuel base args argKey pfx path includes anon = .ok (d, ports, a') ∧
      Mfe.processResults Generated.pilTable spec (startOf .strand spec) nts = .ok (assigned, strands) ∧
      Mfe.output Generated.pilTable spec assigned strands =
        some ((Finish.renderLines R "0.000000".toList).map String.ofList) ∧
      Finish.apply Generated.dnaTable inst (R.map (fun x => (x.2.name, x.2.seq))) = .ok out ∧
      SatSrc Generated.pilTable d out := by
  obtain ⟨d, ports, asg, assigned, out, hden, hpr, hout, hap, hsat, hent, _⟩ := end_to_end hfile hb hload hn ha hg
  exact ⟨d, ports, assigned, _, mfeRecs Generated.pilTable spec asg, out, hden, hpr, hout, hap, asg, hsat, hent⟩

/-- **C06, end to end, one component (strand layout)**: the same for a single component source, against the design
    `Denote.denoteComp` assigns to it (C01 in front instead of C02). -/
theorem end_to_end_component {src : Comp.Src} {n : Nat} {pfx : String} {anon : Nat} {st : Comp.St} {a' : Nat}
    (hcomp : Comp.load src n pfx anon = .ok (st, a'))
    (hnames : Comp.UserNamesOk src = true) (hcodes : Comp.CodesOk Generated.nupackTable src = true)
    {spec : Spec} (hload : Pil.load Generated.nupackTable (Emit.compStmts st) {} = .ok spec)
    (hn : MfeNamesDistinct spec) {a : Arrays} (ha : getConstraints .strand spec = .ok a) {nts : List Char}
    (hg : ArraysGood a nts) :
    ∃ (o : Denote.Out) (ports : List (List Nuc × Bool)) (asg : Var → Base) (assigned : Mfe.Assigned) (out : Finish.Out),
      Denote.denoteComp src pfx anon = .ok (o, ports, a') ∧
      Mfe.processResults Generated.pilTable spec (startOf .strand spec) nts = .ok (assigned, strandSeqs spec asg) ∧
      Mfe.output Generated.pilTable spec assigned (strandSeqs spec asg) = some (mfeLines Generated.pilTable spec asg) ∧
      Finish.apply Generated.dnaTable (.comp st) (mfeDesign Generated.pilTable spec asg) = .ok out ∧
      Sat Generated.pilTable (o.design []) asg ∧ Entries Generated.pilTable (o.design []) asg out ∧
      SatSrc Generated.pilTable (o.design []) out := by
  obtain ⟨spec', o, ports, hload', hden, hrest⟩ := end_to_end_comp hcomp hnames hcodes
  rw [hload] at hload'
  cases hload'
  obtain ⟨asg, assigned, out, hpr, hout, hap, hsat, hent⟩ := hrest hn a ha nts hg
  exact ⟨o, ports, asg, assigned, out, hden, hpr, hout, hap, hsat, hent, asg, hsat, hent⟩

/-- **C06, end to end, structure layout** (`pepper-design-spurious --struct-orient`): the same, for specifications in
    which every strand is non-empty and occurs in some structure (`Placed`; otherwise `get_constraints` adds `None` to
    an integer and C06 is vacuous there). -/
theorem end_to_end_struct {b : Sys.Bundle} {fuel : Nat} {base : String} {args : Nat} {argKey pfx path : String}
    {includes : List String} {anon : Nat} {inst : Sys.Inst} {a' : Nat}
    (hfile : Sys.loadFile b fuel base args argKey pfx path includes anon = .ok (inst, a'))
    (hb : SysProofs.bundleOk Generated.nupackTable b = true)
    {spec : Spec} (hload : Pil.load Generated.nupackTable (Emit.instStmts inst) {} = .ok spec)
    (hp : Placed spec) (hne : ∀ o ∈ spec.strands, o.len ≠ 0)
    (hn : MfeNamesDistinct spec) {a : Arrays} (ha : getConstraints .struct spec = .ok a) {nts : List Char}
    (hg : ArraysGood a nts) :
    ∃ (d : Design) (ports : List (List Nuc × Bool)) (asg : Var → Base) (assigned : Mfe.Assigned) (out : Finish.Out),
      Denote.denoteFile b fuel base args argKey pfx path includes anon = .ok (d, ports, a') ∧
      Mfe.processResults Generated.pilTable spec (startOf .struct spec) nts = .ok (assigned, strandSeqs spec asg) ∧
      Mfe.output Generated.pilTable spec assigned (strandSeqs spec asg) = some (mfeLines Generated.pilTable spec asg) ∧
      Finish.apply Generated.dnaTable inst (mfeDesign Generated.pilTable spec asg) = .ok out ∧
      Sat Generated.pilTable d asg ∧ Entries Generated.pilTable d asg out ∧ SatSrc Generated.pilTable d out := by
  obtain ⟨spec', d, ports, hload', hden, hrest⟩ := end_to_end_tree_struct hfile hb
  rw [hload] at hload'
  cases hload'
  obtain ⟨asg, assigned, out, hpr, hout, hap, hsat, hent⟩ := hrest hp hne hn a ha nts hg
  exact ⟨d, ports, asg, assigned, out, hden, hpr, hout, hap, hsat, hent, asg, hsat, hent⟩

/-- **The name hypothesis is exactly F13.**  For the specification a compiled tree loads to (bundle hypotheses of C02),
    `MfeNamesDistinct` follows from `StructSeqApart spec`: no structure is named like a sequence or a starred sequence.
    (Structure names are distinct because the loader rejects duplicates, sequence names likewise, and no sequence name
    ends in `*`: component sequences are `pfx ++ n` with `endsOk n`, signal sequences `pfx ++ sg` with `sigNameOk sg`.)
    So `end_to_end` holds with `StructSeqApart spec` in place of `MfeNamesDistinct spec`. -/
theorem mfe_names_distinct_of_compile {b : Sys.Bundle} {fuel : Nat} {base : String} {args : Nat}
    {argKey pfx path : String} {includes : List String} {anon : Nat} {inst : Sys.Inst} {a' : Nat}
    (hfile : Sys.loadFile b fuel base args argKey pfx path includes anon = .ok (inst, a'))
    (hb : SysProofs.bundleOk Generated.nupackTable b = true) {spec : Spec}
    (hload : Pil.load Generated.nupackTable (Emit.instStmts inst) {} = .ok spec) (h : StructSeqApart spec) :
    MfeNamesDistinct spec :=
  mfeNamesDistinct_of_compile hfile hb hload h

/-- PARTIAL — the text level, as a lemma: finishing the TEXT of the `.mfe` file is finishing the record list, GIVEN
    (`hwf`, decidable) that the records `output` writes are readable by the `.mfe` reader (`wfRec`: every name over the
    reader's name alphabet, no empty sequence, letters over its sequence alphabet), for the records with any valid
    float token `g` in the GC-content field.

    DISCHARGED since (in `PepperProps/C06Text.lean`, which uses this lemma): `hwf` holds for the specification of every
    compiled program whose source names are over `[A-Za-z0-9_-]` — `Pepper.C06.Text.mfeRecs_readable` (trees),
    `mfeRecs_readable_component`; the exact condition on a specification is `Text.readable_condition`
    (`specReadable`: names, NO sequence / strand of length 0 — the compiler writes no zero-length sequence into the
    PIL and refuses zero-length strands and signals —, structures with a strand and a non-empty text).  The end-to-end
    theorems at the text level are `Text.end_to_end_text`, `_component`, `_struct`, `_tokens`.

    WHY THIS LEMMA KEEPS THE NAME `_partial`: the GC-content field.  The model's `Mfe.output` writes the opaque token
    `GC` there (`mfeLines`), and this statement is for ANY token `g` over `[0-9.-]` that `float()` accepts (`hg1`, `hg2`).
    THE GAP IS CLOSED in `PepperProps/C06Gc.lean` (model `PepperModel/GcFloat.lean`: `"%f" % (count / length)` in exact
    integer arithmetic — binary64 division and `%f`, both correctly rounded, ties to even; `Mfe.outputGc` writes the whole
    record line): `Pepper.C06Gc.Props.gcToken_shape` proves `hg1` and `hg2` for the token Python prints,
    `Pepper.C06Gc.Props.text_level` is this lemma WITHOUT a free token and without `hg1`/`hg2`/`hwf` (for a readable
    specification, the text `Mfe.outputGc` writes), and `Pepper.C06Gc.Props.end_to_end_text_gc` (`_component`, `_struct`)
    are the end-to-end theorems on that text.  The correspondence of the token with the running interpreter is checked
    by `harness/props/c06.py` on every run (exhaustively for lengths up to 220). -/
theorem text_level_partial {spec : Spec} {asg : Var → Base} {g : List Char}
    (hg1 : Finish.okWord Finish.isNumChar g = true) (hg2 : Finish.validFloat g = true)
    (hwf : ∀ x ∈ mfeRecsGC Generated.pilTable spec asg g, Finish.wfRec Generated.alphaMfeSeq x = true)
    (inst : Sys.Inst) (out : Finish.Out) :
    Finish.finishText Generated.dnaTable Generated.alphaMfeSeq inst
        (Finish.render (mfeRecsGC Generated.pilTable spec asg g) "0.000000".toList) = .ok out ↔
      Finish.apply Generated.dnaTable inst (mfeDesign Generated.pilTable spec asg) = .ok out :=
  finish_text_of_records hg1 hg2 hwf inst out

/-! ### non-vacuity: a duplex of two strands over a domain and its complement, every stage evaluated

`component D: sequence a = "2N S"; strand A = a; strand B = a*; structure D = A + B : 3( + 3)`, instance prefix `d-`. -/

def dupSrc : Comp.Src :=
  { name := "duplex", params := [], inputs := [], outputs := [],
    stmts := [ .seq "a" [.nuc "2N S".toList] none,
               .strand false "A" [.ref "a" false] none,
               .strand false "B" [.ref "a" true] none,
               .struct .default "D" ["A", "B"] false "3( + 3)".toList ] }

/-- the saved component state -/
def dupSt : Comp.St :=
  { name := "duplex", pfx := "d-",
    seqs := [⟨"a", false, false, 3, "NNS".toList, [], [⟨"a", false, 3⟩], true⟩],
    strands := [⟨"A", false, 3, [⟨"a", false, 3, false⟩], [⟨"a", false, 3⟩], true⟩,
                ⟨"B", false, 3, [⟨"a", true, 3, false⟩], [⟨"a", true, 3⟩], true⟩],
    structs := [⟨"D", ⟨['1'], []⟩, ["A", "B"], "(((+)))".toList, [⟨"a", false, 3⟩, ⟨"a", true, 3⟩]⟩] }

/-- the specification its emitted PIL loads to -/
def dupSpec : Spec :=
  { seqs := [⟨"d-a", false, 3, "NNS".toList, [], [⟨"d-a", false, 3⟩]⟩],
    strands := [⟨"d-A", false, 3, [⟨"d-a", false⟩], [⟨"d-a", false, 3⟩]⟩,
                ⟨"d-B", false, 3, [⟨"d-a", true⟩], [⟨"d-a", true, 3⟩]⟩],
    structs := [⟨"d-D", some "1nt", ["d-A", "d-B"], "(((+)))".toList, 6, [(2, 3), (1, 4), (0, 5)]⟩] }

/-- the arrays (strand layout: two blanks between the strands) and a string that satisfies them -/
def dupArrays : Arrays :=
  ([some 0, some 1, some 2, none, none, some 5, some 6, some 7],
   [some 7, some 6, some 5, none, none, some 2, some 1, some 0],
   [some 'N', some 'N', some 'S', none, none, some 'S', some 'N', some 'N'])

def dupNts : List Char := "ACG  CGT".toList

open Pepper.Finish in
theorem dup_load : Comp.load dupSrc 0 "d-" 0 = .ok (dupSt, 0) := by decide +kernel
theorem dup_hyps : Comp.UserNamesOk dupSrc = true ∧ Comp.CodesOk Generated.nupackTable dupSrc = true := by
  decide +kernel
open Pepper.Finish in
theorem dup_spec : Pil.load Generated.nupackTable (Emit.compStmts dupSt) {} = .ok dupSpec := by decide +kernel
theorem dup_distinct : MfeNamesDistinct dupSpec := by decide +kernel
open Pepper.Finish in
theorem dup_arrays : getConstraints .strand dupSpec = .ok dupArrays := by decide +kernel
theorem dup_good : ArraysGood dupArrays dupNts := arraysGood_of_check (by decide +kernel)

/-- stage 2, evaluated (`set_seq` is a well-founded recursion the kernel does not unfold: rewritten step by step):
    strand `d-A` is read at 0, `d-B` at 5; `d-a` is set by the first strand and only compared by the second -/
theorem dup_processResults : Mfe.processResults Generated.pilTable dupSpec (startOf .strand dupSpec) dupNts =
    .ok ([("d-a", "ACG".toList)], [("d-A", "ACG".toList), ("d-B", "CGT".toList)]) := by
  have find_a : dupSpec.findSeq "d-a" = some ⟨"d-a", false, 3, "NNS".toList, [], [⟨"d-a", false, 3⟩]⟩ := by decide +kernel
  have s1 : startOf .strand dupSpec ⟨"d-A", false, 3, [⟨"d-a", false⟩], [⟨"d-a", false, 3⟩]⟩ = some 0 := by decide +kernel
  have s2 : startOf .strand dupSpec ⟨"d-B", false, 3, [⟨"d-a", true⟩], [⟨"d-a", true, 3⟩]⟩ = some 5 := by decide +kernel
  have w : Generated.pilTable.wcStr "CGT".toList = some "ACG".toList := by decide +kernel
  have e1 : Mfe.setSeq Generated.pilTable dupSpec 3 [] ⟨"d-a", false⟩ "ACG".toList = .ok [("d-a", "ACG".toList)] := by
    rw [Mfe.setSeq]
    simp only [find_a, Mfe.fwdValue]
    simp [Mfe.setFresh]
  have e2 : Mfe.setSeq Generated.pilTable dupSpec 3 [("d-a", "ACG".toList)] ⟨"d-a", true⟩ "CGT".toList =
      .ok [("d-a", "ACG".toList)] := by
    rw [Mfe.setSeq]
    simp only [find_a, Mfe.fwdValue, w]
    simp
  have hs : dupSpec.strands = [⟨"d-A", false, 3, [⟨"d-a", false⟩], [⟨"d-a", false, 3⟩]⟩,
      ⟨"d-B", false, 3, [⟨"d-a", true⟩], [⟨"d-a", true, 3⟩]⟩] := rfl
  have hl : dupSpec.seqs.length + 2 = 3 := rfl
  have t1 : ((dupNts.drop 0).take 3) = "ACG".toList := by decide
  have t2 : ((dupNts.drop 5).take 3) = "CGT".toList := by decide
  have k1 : List.take 3 "ACG".toList = "ACG".toList := by decide
  have k2 : List.take 3 "CGT".toList = "CGT".toList := by decide
  have n1 : ("ACG".toList.length != 3) = false := by decide
  have n2 : ("CGT".toList.length != 3) = false := by decide
  unfold Mfe.processResults
  rw [hs]
  simp only [List.foldlM_cons, List.foldlM_nil, bind, Except.bind, s1, s2, t1, t2, Mfe.setStrand, hl, Mfe.setList, find_a]
  simp only [k1, k2, n1, n2, Bool.false_eq_true, if_false, e1, e2, pure, Except.pure, List.nil_append, List.cons_append]

/-- stage 3, evaluated: the lines of the `.mfe` file -/
example : Mfe.output Generated.pilTable dupSpec [("d-a", "ACG".toList)] [("d-A", "ACG".toList), ("d-B", "CGT".toList)] =
    some ["0:d-D", "ACG+CGT 0.000000 GC 0", "(((+)))", "(((+)))", "1:d-a", "ACG 0.000000 GC 0", "...", "...",
          "0:d-a*", "CGT 0.000000 GC 0", "...", "...", "Total n(s*) = 0.000000"] := by decide +kernel

open Pepper.Finish in
/-- stage 4, evaluated: finishing the saved component against the records of those lines -/
example : Finish.apply Generated.dnaTable (.comp dupSt)
    [("d-D".toList, "ACG+CGT".toList), ("d-a".toList, "ACG".toList), ("d-a*".toList, "CGT".toList)] =
    .ok ⟨[("d-a", "ACG".toList)], [("d-A", false, "ACG".toList), ("d-B", false, "CGT".toList)],
         [("d-D", "ACG+CGT".toList)]⟩ := by decide +kernel

/-- the records of the theorem ARE those records, whatever the assignment, as long as it reads the string:
    for the assignment `a ↦ A, C, G` the model's record list and lines are the evaluated ones -/
example : mfeDesign Generated.pilTable dupSpec (fun v => match v.idx with | 0 => .A | 1 => .C | _ => .G) =
    [("d-D".toList, "ACG+CGT".toList), ("d-a".toList, "ACG".toList), ("d-a*".toList, "CGT".toList)] := by
  decide +kernel

/-- and the theorem applies: the hypotheses of `end_to_end_component` hold for the duplex, so finishing succeeds and
    the finished output satisfies the source -/
example : ∃ (o : Denote.Out) (ports : List (List Nuc × Bool)) (out : Finish.Out),
    Denote.denoteComp dupSrc "d-" 0 = .ok (o, ports, 0) ∧ SatSrc Generated.pilTable (o.design []) out := by
  obtain ⟨o, ports, _, _, out, h1, _, _, _, _, _, h7⟩ :=
    end_to_end_component dup_load dup_hyps.1 dup_hyps.2 dup_spec dup_distinct dup_arrays dup_good
  exact ⟨o, ports, out, h1, h7⟩

/-- the known finding F13 is outside the hypothesis: a structure named like a sequence -/
example : ¬ MfeNamesDistinct { dupSpec with structs := [⟨"d-a", some "1nt", ["d-A", "d-B"], "(((+)))".toList, 6, []⟩] } := by
  decide +kernel

end Pepper.C06
