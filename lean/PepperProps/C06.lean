import PepperModel.Generated.Tables
import PepperProofs.Finish
/-!
# C06 — any valid design flows through to finished sequences that satisfy the source  (PARTIAL)

This file carries the LAST stage of the end-to-end statement: design text → `.mfe` reader → `apply_design`
on the saved system → the two output files (model `PepperModel/Finish.lean`; vocabulary `Relations`,
`CompRel`, `AtomOk`, `IsConcat`, `IsJoin`, `render`, `finishText` in `PepperProofs/Finish.lean`).

PARTIAL.  What the other stages contribute, and is NOT restated here:
* C01 / C02 (compile): the saved tree and the emitted `.pil` denote the source program;
* C04 (arrays): an assignment satisfying the `st`/`eq`/`wc` arrays satisfies the `.pil` — this is where
  *template membership* of every sequence and *Watson–Crick pairing of every target pair* come from;
* C05 (files) and C19 (designer): the assignment the designer prints satisfies the arrays;
* C16: the reloaded state has the snapshot of the in-memory one.
`finish_satisfies_partial` therefore states the relations that `finish` itself establishes and checks
(length, complementarity, concatenation, structure = join of strands = its own record) and not template
membership / target pairs.  The harness (`harness/props/c06.py`) runs the whole real chain and applies the
full `SatSrc` oracle to the real `.seqs`.
-/
namespace Pepper.C06
open Pepper Pepper.Finish Pepper.Comp Pepper.Sys

/-- PARTIAL (missing: template membership and Watson–Crick pairing of target pairs, which come from the
    constraint arrays — C04/C19).  If finishing succeeds, the finished sequences satisfy the saved system's
    relations (`Relations`): every non-dummy atomic sequence has its declared length and its starred view is
    its reverse complement, every super-sequence and strand is the concatenation of its domains
    (reverse-complemented where referenced reversed), every structure is the `+`-join of its strands and
    equals the structure's record in the design. -/
theorem finish_satisfies_partial {t : CodeTable} {inst : Inst} {d : List (List Char × List Char)} {out : Out}
    (h : apply t inst d = .ok out) : Relations t inst d out :=
  apply_relations h

/-- the same, entry by entry, on a well-formed tree: the `.seqs` entry of every non-dummy atomic sequence is
    the designed sequence of that name, of the declared length, with the starred record its complement -/
theorem finished_atomics {t : CodeTable} {inst : Inst} {d : List (List Char × List Char)} {out : Out}
    (hw : wfB inst = true) (h : apply t inst d = .ok out) :
    ∀ s ∈ compsOf 64 inst, ∀ e ∈ s.baseSeqs, e.len ≠ 0 →
      ∃ v, (s.pfx ++ e.name, v) ∈ out.seqs ∧ lookupLast d (s.pfx ++ e.name).toList = some v ∧
        v.length = e.len ∧ t.wcStr v = lookupLast d (s.pfx ++ e.name ++ "*").toList :=
  (apply_relations h).atomic_entries hw

/-- Finishing SUCCEEDS on every design that satisfies the relations (the converse of
    `finish_satisfies_partial`): a valid design is never refused. -/
theorem valid_design_accepted {t : CodeTable} {inst : Inst} {d : List (List Char × List Char)} {out : Out}
    (h : Relations t inst d out) : apply t inst d = .ok out :=
  apply_ok_iff_relations.2 h

/-- … and going through the design FILE changes nothing: for well-formed records written the way
    `Convert.output` writes them, finishing the text is finishing the record map. -/
theorem through_the_file {t : CodeTable} {α : List Char} (hα : okAlpha α = true) {total : List Char}
    (ht : okWord isNumChar total = true) (hv : validFloat total = true)
    (rs : List (List Char × Rec)) (hrs : ∀ x ∈ rs, wfRec α x = true) (inst : Inst) (out : Out) :
    finishText t α inst (render rs total) = .ok out ↔
      Relations t inst (rs.map (fun x => (x.2.name, x.2.seq))) out := by
  rw [finishText_ok_iff, readDesign_render hα ht hv rs hrs, ← apply_ok_iff_relations]
  simp

/-- The `.seqs` file lists every sequence, every strand and every structure of the tree, in component order:
    it is the three headed blocks, and the names in the blocks are exactly the full names of the saved
    system's sequences (atomic and super, dummy ones included, as `finish` writes them), strands, structures. -/
theorem seqs_file_lists_all {t : CodeTable} {inst : Inst} {d : List (List Char × List Char)} {out : Out}
    (h : apply t inst d = .ok out) :
    seqsFile out =
      ["# Sequences"] ++ out.seqs.map (fun x => "sequence " ++ x.1 ++ " = " ++ String.ofList x.2)
      ++ ["# Strands"] ++ out.strands.map (fun x => "strand " ++ x.1 ++ " = " ++ String.ofList x.2.2)
      ++ ["# Structures"] ++ out.structs.map (fun x => "structure " ++ x.1 ++ " = " ++ String.ofList x.2) ∧
    out.seqs.map (·.1) = (compsOf 64 inst).flatMap (fun s => s.seqs.map (fun e => s.pfx ++ e.name)) ∧
    out.strands.map (·.1) = (compsOf 64 inst).flatMap (fun s => s.strands.map (fun e => s.pfx ++ e.name)) ∧
    out.structs.map (·.1) = (compsOf 64 inst).flatMap (fun s => s.structs.map (fun e => s.pfx ++ e.name)) := by
  have hr := apply_relations h
  exact ⟨rfl, hr.seq_names, hr.strand_names, hr.struct_names⟩

/-- The strands-to-order file lists exactly the non-dummy strands: one line per written strand whose dummy
    flag is off, and the names on those lines are, in order, the full names of the saved system's non-dummy
    strands. -/
theorem strands_file_exact {t : CodeTable} {inst : Inst} {d : List (List Char × List Char)} {out : Out}
    (h : apply t inst d = .ok out) :
    strandsFile out =
      (out.strands.filter (fun x => !x.2.1)).map (fun x => "strand " ++ x.1 ++ "\t" ++ String.ofList x.2.2) ∧
    (out.strands.filter (fun x => !x.2.1)).map (·.1) =
      (compsOf 64 inst).flatMap (fun s =>
        (s.strands.filter (fun e => !e.dummy)).map (fun e => s.pfx ++ e.name)) :=
  ⟨rfl, (apply_relations h).real_strand_names⟩

/-! ### non-vacuity: a component with a dummy strand and a zero-length domain -/

def exComp : Comp.St :=
  { name := "c", pfx := "c-",
    seqs := [⟨"a", false, false, 3, "NNN".toList, [], [⟨"a", false, 3⟩], true⟩,
             ⟨"z", false, false, 0, [], [], [⟨"z", false, 0⟩], true⟩,
             ⟨"b", false, false, 2, "NN".toList, [], [⟨"b", false, 2⟩], true⟩,
             ⟨"ab", true, false, 5, [], [⟨"a", false, 3, false⟩, ⟨"z", false, 0, false⟩, ⟨"b", true, 2, false⟩],
               [⟨"a", false, 3⟩, ⟨"z", false, 0⟩, ⟨"b", true, 2⟩], false⟩],
    strands := [⟨"S", false, 5, [⟨"ab", false, 5, true⟩], [⟨"a", false, 3⟩, ⟨"z", false, 0⟩, ⟨"b", true, 2⟩], true⟩,
                ⟨"D", true, 3, [⟨"a", true, 3, false⟩], [⟨"a", true, 3⟩], true⟩],
    structs := [⟨"T", ⟨['1'], []⟩, ["S", "D"], ".....+...".toList, []⟩] }

def exInst : Inst := .sys (.mk "" "top" "" [] [] [] [("c", .comp exComp)] [] [])

def exD : List (List Char × List Char) :=
  [("c-T".toList, "ACGAA+CGT".toList), ("c-a".toList, "ACG".toList), ("c-a*".toList, "CGT".toList),
   ("c-b".toList, "TT".toList), ("c-b*".toList, "AA".toList)]

example : wfB exInst = true := by decide

example : apply Generated.dnaTable exInst exD =
    .ok ⟨[("c-a", "ACG".toList), ("c-z", []), ("c-b", "TT".toList), ("c-ab", "ACGAA".toList)],
         [("c-S", false, "ACGAA".toList), ("c-D", true, "CGT".toList)],
         [("c-T", "ACGAA+CGT".toList)]⟩ := by decide

example : (apply Generated.dnaTable exInst exD).toOption.map seqsFile = some
    ["# Sequences", "sequence c-a = ACG", "sequence c-z = ", "sequence c-b = TT", "sequence c-ab = ACGAA",
     "# Strands", "strand c-S = ACGAA", "strand c-D = CGT", "# Structures", "structure c-T = ACGAA+CGT"] := by
  decide +kernel

example : (apply Generated.dnaTable exInst exD).toOption.map strandsFile = some ["strand c-S\tACGAA"] := by
  decide +kernel

end Pepper.C06
