import PepperProofs.CompShift
/-!
# C18 — compilation is a pure function of its inputs  (PARTIAL)

PARTIAL by nature.  Python's hash seed, pyparsing's import-time global white-space setting and the in-place
mutation of Python dicts are facts about the runtime; no Lean model expresses them.  They are covered by the
differential runs of `harness/props/c18.py` only (fresh subprocesses under several `PYTHONHASHSEED`s, 0–4
earlier compiles in the process, three invocation directories, both back-ends).

What IS proved, over the model of the compile path (`PepperModel/Comp.lean`, `Sys.lean`, `Emit.lean`):

(a) `anon_equivariant`: the only process state the model has — the counter of `AnonymousSequence`, threaded
    through as `anon` — acts as a consistent renumbering.  Loading at counter `a + k` fails exactly when loading
    at `a` fails, with the same error, and otherwise yields the same tables with `_Anon n` written `_Anon (n+k)`
    (`rename (shift a k)`) and the counter shifted by `k`; hence the emitted `.pil` statements / lines and `.des`
    lines are those of the other run with that renaming (`emitted_equivariant`), every run is the run from
    counter 0 renamed (`from_zero`), and the number of names consumed does not depend on the counter
    (`anon_consumption_independent`).  Hypothesis `UserNamesOk src` (decidable): no sequence name the source
    defines or mentions is of the reserved form `_Anon<decimal>` — without it the statement is false (a
    reference to `_Anon3` resolves or not depending on what was compiled before).
    `anon_equivariant_general` is the same for every injective renaming that fixes the source's names.
(b) `names_unique`: after a successful load the names of `seqs`, of `strands` and of `structs` are pairwise
    distinct (three name spaces, as the compiler keeps them) — unconditionally, the compiler checks before it
    inserts —, hence (`emitted_names_unique`) so are the names declared by the `sequence`/`sup-sequence`
    statements, by the `strand` statements and by the `structure` statements of the emitted specification.
    `prefix_disjoint`: full names under two instance prefixes `pfx ++ c1 ++ "-"`, `pfx ++ c2 ++ "-"` coincide only
    if `c1 = c2` (instance names contain no `-`: the system grammar's `var = Word(alphas, alphanums+"_")`).
    `names_unique_tree`: uniqueness over the whole instance tree of a successfully loaded system, signal
    sequences included.  `anon_equivariant_tree`: (a) for whole systems (`Sys.loadFile`).
(c) `path_independent`: `Sys.loadFile` reads the bundle's file-existence information only through the
    probes it hands to `resolveImport`, and `resolveImport` consults the probe only at
    `<d>/<base>.sys`, `<d>/<base>.comp` for `d` in the search list (`import_probes_only`).

Definitions (`anonIdx?`, `shift`, `rename`, `UserNamesOk`, `compStmtsWith`, `emitPilWith`, `emitDesWith`,
`NamesNodup`, `seqDeclNames` …) are in `PepperProofs/CompShift.lean`.
-/
namespace Pepper.C18
open Pepper Pepper.Comp Pepper.Sys Pepper.CompShift

/-- the reserved names are pairwise distinct: `_Anon m = _Anon n` only if `m = n` -/
theorem anonName_injective {m n : Nat} (h : anonName m = anonName n) : m = n := anonName_inj h

/-- what the renumbering `shift a k` does: `_Anon n ↦ _Anon (n + k)` for `n ≥ a`; `_Anon n` for `n < a` and
    every name not of the reserved form are left alone; it is injective (so it is a renaming) and
    `shift a 0` is the identity -/
theorem shift_spec (a k : Nat) :
    (∀ n, a ≤ n → shift a k (anonName n) = anonName (n + k)) ∧
    (∀ n, n < a → shift a k (anonName n) = anonName n) ∧
    (∀ s, (∀ n, s ≠ anonName n) → shift a k s = s) ∧
    (∀ s t, shift a k s = shift a k t → s = t) ∧
    (∀ s, shift a 0 s = s) := by
  refine ⟨fun n h => shift_anonName h, fun n h => shift_anonName_lt h, ?_, fun s t h => shift_injective a k h,
    shift_zero a⟩
  intro s hs
  apply shift_user
  cases hi : isAnon s with
  | false => rfl
  | true =>
    obtain ⟨n, hn⟩ := isAnon_iff.1 hi
    exact absurd hn (hs n)

/-- `UserNamesOk` says what it should: no sequence name the source defines or mentions (sequence statements,
    item lists of sequences and strands, port declarations) equals `_Anon n` for any `n` -/
theorem userNamesOk_spec (src : Src) : UserNamesOk src ↔ ∀ x ∈ srcSeqNames src, ∀ n, x ≠ anonName n :=
  userNamesOk_iff

/-- (a), general form.  For every injective renaming `ρ` of local sequence names that fixes every sequence
    name the source defines or mentions and maps `_Anon n ↦ _Anon (n + k)` for all `n ≥ a`: loading at counter
    `a + k` is loading at counter `a` — same success or failure, same error —, with every sequence name in the
    resulting tables (entries of `seqs`, item and base references of sequences, strands, structures and
    ports) renamed by `ρ` and the final counter shifted by `k`. -/
theorem anon_equivariant_general {ρ : String → String} (hinj : ∀ x y, ρ x = ρ y → x = y) {a k : Nat}
    (hren : ∀ n, a ≤ n → ρ (anonName n) = anonName (n + k)) (src : Src) (n : Nat) (pfx : String)
    (hfix : ∀ x ∈ srcSeqNames src, ρ x = x) :
    Comp.load src n pfx (a + k) = (Comp.load src n pfx a).map (fun r => (rename ρ r.1, r.2 + k)) :=
  load_rename hinj hren src n pfx hfix

/-- (a) The anonymous counter acts as a consistent renumbering: for every source whose names are not of the
    reserved form, every argument count, prefix and counters `a`, `k`,
    `load src n pfx (a + k) = (load src n pfx a).map (rename by shift a k, counter + k)`. -/
theorem anon_equivariant (src : Src) (hu : UserNamesOk src) (n : Nat) (pfx : String) (a k : Nat) :
    Comp.load src n pfx (a + k) =
      (Comp.load src n pfx a).map (fun r => (rename (shift a k) r.1, r.2 + k)) :=
  load_rename (shift_inj a k) (shift_renum a k) src n pfx (shift_fixes hu a k)

/-- every run is the run from counter 0, renumbered: whatever was compiled earlier in the process (counter
    `a`), the result is the result of a fresh process with `_Anon n` written `_Anon (n + a)` -/
theorem from_zero (src : Src) (hu : UserNamesOk src) (n : Nat) (pfx : String) (a : Nat) :
    Comp.load src n pfx a = (Comp.load src n pfx 0).map (fun r => (rename (shift 0 a) r.1, r.2 + a)) := by
  have := anon_equivariant src hu n pfx 0 a
  rwa [Nat.zero_add] at this

/-- success, failure and the reported error do not depend on the counter -/
theorem outcome_independent (src : Src) (hu : UserNamesOk src) (n : Nat) (pfx : String) (a b : Nat) :
    (Comp.load src n pfx a).map (fun _ => ()) = (Comp.load src n pfx b).map (fun _ => ()) := by
  rw [from_zero src hu n pfx a, from_zero src hu n pfx b]
  cases Comp.load src n pfx 0 <;> rfl

/-- the emitted specification of the shifted run is that of the original run with every local sequence
    name `x` written `shift a k x`: statement list (`Emit.compStmts`), `.pil` lines and `.des` lines.
    (`compStmtsWith ρ`, `emitPilWith ρ`, `emitDesWith ρ` are the emitters with `ρ` applied where a sequence name
    is printed; with `ρ = id` they are the emitters themselves, `emitters_with_id`.) -/
theorem emitted_equivariant (src : Src) (hu : UserNamesOk src) (n : Nat) (pfx : String) (a k : Nat)
    {st : St} {a' : Nat} (h : Comp.load src n pfx a = .ok (st, a')) :
    ∃ st', Comp.load src n pfx (a + k) = .ok (st', a' + k) ∧
      Emit.compStmts st' = compStmtsWith (shift a k) st ∧
      emitPil st' = emitPilWith (shift a k) st ∧
      emitDes st' = emitDesWith (shift a k) st := by
  refine ⟨rename (shift a k) st, ?_, compStmts_rename _ _, emitPil_rename _ _, emitDes_rename _ _⟩
  rw [anon_equivariant src hu n pfx a k, h]
  rfl

theorem emitters_with_id (s : St) :
    compStmtsWith id s = Emit.compStmts s ∧ emitPilWith id s = emitPil s ∧ emitDesWith id s = emitDes s :=
  ⟨compStmtsWith_id s, emitPilWith_id s, emitDesWith_id s⟩

/-- the number of anonymous names a compilation consumes does not depend on the counter it starts from -/
theorem anon_consumption_independent (src : Src) (hu : UserNamesOk src) (n : Nat) (pfx : String) (a k : Nat) :
    (Comp.load src n pfx (a + k)).map (fun r => r.2 - (a + k)) = (Comp.load src n pfx a).map (fun r => r.2 - a) := by
  rw [anon_equivariant src hu n pfx a k]
  cases Comp.load src n pfx a with
  | error e => rfl
  | ok r =>
    simp only [Except.map]
    congr 1
    omega

/-- (b) After a successful load the names in `seqs` are pairwise distinct, likewise those in `strands` and
    those in `structs`. -/
theorem names_unique {src : Src} {n : Nat} {pfx : String} {a : Nat} {st : St} {a' : Nat}
    (h : Comp.load src n pfx a = .ok (st, a')) :
    (st.seqs.map (·.name)).Nodup ∧ (st.strands.map (·.name)).Nodup ∧ (st.structs.map (·.name)).Nodup :=
  let r := load_namesNodup h
  ⟨r.seqs, r.strands, r.structs⟩

/-- (b) Hence in the emitted specification of a loaded component no name is declared twice: not by the
    `sequence` / `sup-sequence` statements (one name space), not by the `strand` statements, not by the
    `structure` statements. -/
theorem emitted_names_unique {src : Src} {n : Nat} {pfx : String} {a : Nat} {st : St} {a' : Nat}
    (h : Comp.load src n pfx a = .ok (st, a')) :
    (seqDeclNames (Emit.compStmts st)).Nodup ∧ (strandDeclNames (Emit.compStmts st)).Nodup ∧
      (structDeclNames (Emit.compStmts st)).Nodup :=
  compStmts_names_nodup (load_namesNodup h)

/-- (b) Distinct instance names give disjoint prefixes: if neither `c1` nor `c2` contains `-`, a full name
    `pfx ++ c1 ++ "-" ++ x` equals `pfx ++ c2 ++ "-" ++ y` only if `c1 = c2` (and then `x = y`). -/
theorem prefix_disjoint (pfx c1 c2 x y : String) (h1 : '-' ∉ c1.toList) (h2 : '-' ∉ c2.toList)
    (h : pfx ++ c1 ++ "-" ++ x = pfx ++ c2 ++ "-" ++ y) : c1 = c2 ∧ x = y :=
  CompShift.prefix_disjoint pfx c1 c2 x y h1 h2 h

/-- (c) Loading depends on the bundle's file-existence list only through the probes: two bundles with the
    same sources that answer every existence question alike load identically (any fuel, any entry, any
    search path, any counter). -/
theorem path_independent (b1 b2 : Bundle) (hf : b1.files = b2.files)
    (he : ∀ p, b1.exists_.contains (normPath p) = b2.exists_.contains (normPath p))
    (fuel : Nat) (base : String) (args : Nat) (key pfx path : String) (includes : List String) (a : Nat) :
    loadFile b1 fuel base args key pfx path includes a = loadFile b2 fuel base args key pfx path includes a :=
  loadFile_congr b1 b2 hf he fuel includes base args key pfx path a

/-- (c) The import search asks the file system only about `<d>/<base>.sys` and `<d>/<base>.comp` for the
    directories `d` of the search list `dir :: includes`: any two probes that agree there resolve alike. -/
theorem import_probes_only (probe probe' : String → Bool) (base dir : String) (includes : List String)
    (h : ∀ d ∈ dir :: includes, probe (pathJoin d base ++ ".sys") = probe' (pathJoin d base ++ ".sys") ∧
                   probe (pathJoin d base ++ ".comp") = probe' (pathJoin d base ++ ".comp")) :
    resolveImport probe base dir includes = resolveImport probe' base dir includes :=
  resolveImport_congr probe probe' base dir includes h

/-! ### whole systems -/

/-- (a) for an instance tree.  If every component source of the bundle has names not of the reserved form, then
    loading any entry (any fuel, arguments, prefix, search path) at counter `a + k` is loading it at `a` with
    `_Anon n ↦ _Anon (n + k)` applied to every local sequence name in every component of the tree and in the
    signal tables of every system (`renameInst`), same failure otherwise, and the final counter shifted by `k`. -/
theorem anon_equivariant_tree (b : Bundle)
    (hu : ∀ key c, b.files.lookup key = some (.comp c) → UserNamesOk c)
    (fuel : Nat) (base : String) (args : Nat) (key pfx path : String) (includes : List String) (a k : Nat) :
    loadFile b fuel base args key pfx path includes (a + k) =
      (loadFile b fuel base args key pfx path includes a).map (fun r => (renameInst (shift a k) r.1, r.2 + k)) :=
  (loadFile_rename (shift_inj a k) (shift_renum a k) b (fun key c h => shift_fixes (hu key c h) a k)
    fuel includes base args key pfx path a (Nat.le_refl _)).1

/-- the statements emitted for the renamed tree are those of the original tree with every local sequence name
    `x` written `ρ x` (`instStmtsWith ρ`; `instStmtsWith id` is `Emit.instStmts`) -/
theorem emitted_equivariant_tree (ρ : String → String) (inst : Inst) :
    Emit.instStmts (renameInst ρ inst) = instStmtsWith ρ inst ∧ instStmtsWith id inst = Emit.instStmts inst :=
  ⟨instStmts_rename ρ inst, instStmtsWith_id inst⟩

/-- the anonymous counter only grows -/
theorem counter_monotone (b : Bundle) (fuel : Nat) (base : String) (args : Nat) (key pfx path : String)
    (includes : List String) (a : Nat) {inst : Inst} {a' : Nat}
    (h : loadFile b fuel base args key pfx path includes a = .ok (inst, a')) : a ≤ a' :=
  (loadFile_rename (ρ := id) (fun _ _ h => h) (a0 := 0) (k := 0) (fun _ _ => rfl) b (fun _ _ _ _ _ => rfl)
    fuel includes base args key pfx path a (Nat.zero_le _)).2 _ h

/-- (b) for an instance tree.  If the instance names and signal names written in the system sources of the
    bundle contain no `-` (`BundleDashFree`; the system grammar's identifiers are `Word(alphas, alphanums+"_")`),
    then in the specification emitted for any successfully loaded entry no name is declared twice: not by the
    `sequence` / `sup-sequence` statements (including the signal sequences of the systems), not by the `strand`
    statements, not by the `structure` statements — over the whole tree. -/
theorem names_unique_tree (b : Bundle) (hb : BundleDashFree b)
    (fuel : Nat) (base : String) (args : Nat) (key pfx path : String) (includes : List String) (a : Nat)
    {inst : Inst} {a' : Nat} (h : loadFile b fuel base args key pfx path includes a = .ok (inst, a')) :
    (seqDeclNames (Emit.instStmts inst)).Nodup ∧ (strandDeclNames (Emit.instStmts inst)).Nodup ∧
      (structDeclNames (Emit.instStmts inst)).Nodup :=
  tree_names_nodup inst (loadFile_treeOk b hb fuel includes base args key pfx path a inst a' h).1

/-! ### non-vacuity -/

/-- a component with a named sequence and a strand with two anonymous regions -/
def exSrc : Src :=
  { name := "T", params := [], inputs := [⟨"x", false, none⟩], outputs := [],
    stmts := [.seq "x" [.nuc "4N".toList] none,
              .strand false "s" [.nuc "2A".toList, .ref "x" true, .nuc "3N".toList] none] }

example : UserNamesOk exSrc := by decide

/-- a fresh process: the anonymous regions are `_Anon0`, `_Anon1`, the counter ends at 2 -/
example : (match Comp.load exSrc 0 "c-" 0 with
           | .ok (st, a') => (emitPil st, a')
           | .error _ => ([], 0)) =
    (["sequence c-x = NNNN : 4", "sequence c-_Anon0 = AA : 2", "sequence c-_Anon1 = NNN : 3",
      "strand c-s = c-_Anon0 c-x* c-_Anon1 : 9"], 2) := by decide +kernel

/-- after seven earlier anonymous regions: `_Anon7`, `_Anon8`, the counter ends at 9 — the same lines otherwise -/
example : (match Comp.load exSrc 0 "c-" 7 with
           | .ok (st, a') => (emitPil st, a')
           | .error _ => ([], 0)) =
    (["sequence c-x = NNNN : 4", "sequence c-_Anon7 = AA : 2", "sequence c-_Anon8 = NNN : 3",
      "strand c-s = c-_Anon7 c-x* c-_Anon8 : 9"], 9) := by decide +kernel

/-- the renumbering on concrete names -/
example : shift 0 7 "_Anon1" = "_Anon8" ∧ shift 0 7 "x" = "x" ∧ shift 5 7 "_Anon1" = "_Anon1" ∧
    shift 0 7 "_Anon01" = "_Anon01" := by decide +kernel

/-- the hypothesis is needed: a source that mentions `_Anon0` loads or not depending on the counter -/
def badSrc : Src :=
  { name := "T", params := [], inputs := [], outputs := [],
    stmts := [.strand false "s" [.nuc "2A".toList] none, .strand false "t" [.ref "_Anon0" false] none] }

example : ¬ UserNamesOk badSrc := by decide
example : (match Comp.load badSrc 0 "" 0 with | .ok _ => true | .error _ => false) = true := by decide +kernel
example : (match Comp.load badSrc 0 "" 7 with | .ok _ => true | .error _ => false) = false := by decide +kernel

/-- a system with two instances of the component above -/
def topSrc : SSrc :=
  { name := "top", params := [], inputs := [], outputs := [⟨"sig", false⟩],
    stmts := [.imports [("T", none)],
              .component "a" "T" 0 [⟨"sig", false⟩] [],
              .component "b" "T" 0 [⟨"sig", true⟩] []] }

def exBundle : Bundle :=
  { files := [("top.sys@", .sys topSrc), ("T.comp@a", .comp exSrc), ("T.comp@b", .comp exSrc)],
    exists_ := ["top.sys", "T.comp"] }

/-- the hypotheses of the tree-level theorems hold for it: the component source has no reserved names … -/
example : ∀ key c, exBundle.files.lookup key = some (.comp c) → UserNamesOk c := by
  intro key c h
  simp only [exBundle, List.lookup] at h
  repeat' split at h
  all_goals first
    | (cases h; done)
    | (injection h with h; injection h with h; subst h; decide)

/-- … and the instance names `a`, `b` and the signal name `sig` contain no `-` -/
example : BundleDashFree exBundle := by
  intro key s h st hst
  simp only [exBundle, List.lookup] at h
  repeat' split at h
  all_goals first
    | (cases h; done)
    | (injection h with h; injection h with h; subst h
       simp only [topSrc, List.mem_cons, List.not_mem_nil, or_false] at hst
       rcases hst with rfl | rfl | rfl
       · trivial
       · refine ⟨by unfold dashFree; decide, ?_⟩
         intro g hg
         simp only [List.append_nil, List.mem_singleton] at hg
         subst hg
         unfold dashFree; decide
       · refine ⟨by unfold dashFree; decide, ?_⟩
         intro g hg
         simp only [List.append_nil, List.mem_singleton] at hg
         subst hg
         unfold dashFree; decide)

end Pepper.C18
