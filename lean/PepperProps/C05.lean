import PepperProofs.ConstraintGenFiles
import PepperProofs.ConstraintGenTotalT
import PepperProofs.ConstraintGenSeps
/-!
# C05 — the constraint files honour the documented spuriousSSM input contract

Model: `PepperModel/ConstraintGen.lean` — `getConstraints` (= `Convert.get_constraints`), `ssmFiles` (the `eq_map` /
`wc_map` / `st_map` / `print_list` lines of `design()`), `readTriple` (= `load_input_files` of `spuriousSSM.c` for
`template= wc= eq=`), `SsmContract` / `sepsOk` / `segsOf` (the contract with its separator clause, against the
strands the layout puts on the line), and `PepperModel/Ssm.lean` — `Contract` (the documented contract),
`constrain`, `testConsistency`.

Status.  Proved at full strength: `files_satisfy_contract` (+ `_strand`, `_struct`).  The separator clause ("at
least one blank between strands and two between complexes") is now derived in Lean, in two forms: over positions
(`Seps`: `SepsStrand` / `SepsStruct` of `PepperProofs/ConstraintGenSeps.lean`, from the closed-form layouts
`C04.layout_exact_strand` / `C04.layout_exact_struct`) and as the executable check `sepsOk` of `SsmContract` on the
maximal blank runs of the text (`sepsOk_of_seps`).  The numeric input is `gap_constants_ok`, an obligation over the
generated gap constants (re-measured on the working tree on every run).  The earlier `_partial` theorems (everything
but the separator clause) are kept; the full ones are assembled from them.
-/
namespace Pepper.C05
open Pepper Pepper.Pil Pepper.ConstraintGen

/-- **The written files satisfy the contract and are accepted.**  For every document the reader accepts: whenever `get_constraints` returns arrays (after
    a successful seeding), the three texts `design()` writes are read back by the model of `load_input_files` to a
    triple `t` of three arrays of one length which satisfies the documented contract `Ssm.Contract`: 1-based
    indices in range; template blank exactly where `eq = 0`, and there `wc = -1`; every template letter a code;
    `eq[eq[i]] = eq[i] ≤ i` (idempotent, lowest member); `wc` and the template constant on `eq` classes; `wc[i]`
    itself a representative, different from `eq[i]`, with `wc[wc[i]] = eq[i]`; paired positions carrying
    complementary codes; last position not blank.  And the C program's own acceptance test
    (`test_consistency` after `constrain`) passes on the start sequence it builds, for every outcome `pick` of its
    random draws.  Both layouts.

    Not covered by this theorem (named `_partial` for that reason): the separator clause of `SsmContract` ("at least
    one blank between strands and two between complexes", `sepsOk` against the layout's strand list) — it is a
    statement about where the layout puts the strands (C04's `layout_exact`); see `files_satisfy_contract` below
    for the full statement. -/
theorem files_satisfy_contract_partial {mode : Layout} {stmts : List Stmt} {spec : Spec}
    (hload : Pil.load Generated.nupackTable stmts {} = .ok spec)
    {s : Seeds} {c : Cons} (hs : seeds mode spec = .ok s) (hb : build s = .ok c)
    {a : Arrays} (ha : getConstraints mode spec = .ok a) :
    ∃ t, readTriple (ssmFiles a) = some t ∧ t.eq.length = t.N ∧ t.wc.length = t.N ∧
      Ssm.contractB t = true ∧
      ∀ pick : Nat → Nat, Ssm.testConsistency t (Ssm.constrain t (startOf t pick)) = true := by
  obtain ⟨wf, h | h | ⟨a', h⟩⟩ := getConstraintsT_spec pil_lawful (load_specCodes hload) hs hb
  · exact absurd (h.1.symm.trans ha) (by simp)
  · exact absurd (h.1.symm.trans ha) (by simp)
  · have e : a' = a := by
      have := h.1.symm.trans ha
      simpa using this
    have G := e ▸ h.2.2
    have ct := contract_of_exact wf G
    refine ⟨tripleOf a, readTriple_ssmFiles (arrFacts_of_exact wf G), ct.2.1, ct.2.2.1, decide_eq_true ct,
      fun pick => consistent_of_contract ct pick⟩

/-- The same for the strand layout (the default), with the seeding hypotheses discharged. -/
theorem files_satisfy_contract_strand_partial {stmts : List Stmt} {spec : Spec}
    (hload : Pil.load Generated.nupackTable stmts {} = .ok spec)
    {a : Arrays} (ha : getConstraints .strand spec = .ok a) :
    ∃ t, readTriple (ssmFiles a) = some t ∧ t.eq.length = t.N ∧ t.wc.length = t.N ∧
      Ssm.contractB t = true ∧
      ∀ pick : Nat → Nat, Ssm.testConsistency t (Ssm.constrain t (startOf t pick)) = true := by
  obtain ⟨s, c, hs, hb⟩ := seeding_total_strand (load_wf hload)
  exact files_satisfy_contract_partial hload hs hb ha

/-- The same for the structure layout when every non-empty strand occurs in some structure. -/
theorem files_satisfy_contract_struct_partial {stmts : List Stmt} {spec : Spec}
    (hload : Pil.load Generated.nupackTable stmts {} = .ok spec) (hp : Placed spec)
    {a : Arrays} (ha : getConstraints .struct spec = .ok a) :
    ∃ t, readTriple (ssmFiles a) = some t ∧ t.eq.length = t.N ∧ t.wc.length = t.N ∧
      Ssm.contractB t = true ∧
      ∀ pick : Nat → Nat, Ssm.testConsistency t (Ssm.constrain t (startOf t pick)) = true := by
  obtain ⟨s, c, hs, hb⟩ := seeding_total_struct (load_wf hload) hp
  exact files_satisfy_contract_partial hload hs hb ha

/-! ### the separator clause and the full statement -/

/-- **Obligation over the generated gap constants.**  The numbers of blanks the layouts write (measured on the
    working tree by `extract_tables.py`: after every strand in the strand layout; after every strand of a structure
    and between structures in the structure layout) meet the contract: at least two between complexes, at least one
    between strands.  If the source lowers a gap below the contract this stops being provable. -/
theorem gap_constants_ok :
    2 ≤ Generated.strandGap ∧ 1 ≤ Generated.structGapStrands ∧ 2 ≤ Generated.structGapStructs := by decide

/-- **The separator clause on the template array** `get_constraints` returns (`a.2.2`; `None` = blank), either
    layout.  `Seps` says: (`nuc`) every nucleotide of every strand sits at its closed-form position — strand
    layout: `startSC k + x`, the earlier strands each with `strandGap` blanks; structure layout: `posT q m y`, the
    earlier structures, the earlier strands of the structure each with `structGapStrands` blank(s) — and is not blank
    there; (`cover`) nothing else on the line is non-blank; (`strands`, structure layout) between two nucleotides of
    different strands of one structure there is a blank position; (`complexes`) between two nucleotides of different
    complexes — different strands in the strand layout, different structures in the structure layout — there are
    two consecutive blank positions.  Strands of length 0 have no nucleotides and are not constrained. -/
theorem template_array_separated {mode : Layout} {stmts : List Stmt} {spec : Spec}
    (hload : Pil.load Generated.nupackTable stmts {} = .ok spec)
    {s : Seeds} {c : Cons} (hs : seeds mode spec = .ok s) (hb : build s = .ok c)
    {a : Arrays} (ha : getConstraints mode spec = .ok a) :
    Seps mode (nbArr a.2.2) (bArr a.2.2) spec := by
  cases mode with
  | strand => exact seps_strand_arr hload hs hb ha gap_constants_ok.1
  | struct => exact seps_struct_arr hload hs hb ha gap_constants_ok.2.1 gap_constants_ok.2.2

/-- **The separator clause is the executable one.**  For any text: the clause over positions (`Seps`, read with
    "character other than `' '`" / "the character `' '`") implies the check `sepsOk` of `SsmContract` against the
    strands the layout puts on the line (`segsOf`): the maximal non-blank runs of the text are, in order, exactly
    the non-empty strands with their lengths, and the maximal run of blanks before a run has length at least 1,
    and at least 2 where the run starts a new complex. -/
theorem seps_executable {mode : Layout} {st : List Char} {spec : Spec}
    (h : Seps mode (nbText st) (bText st) spec) : sepsOk st (segsOf mode spec) = true := sepsOk_of_seps h

/-- **C05, full statement.**  For every document the reader accepts: whenever `get_constraints` returns arrays
    (after a successful seeding), the three texts `design()` writes are read back by the model of
    `load_input_files` to a triple `t` of three arrays of one length which satisfies the whole documented contract:
    `Ssm.Contract` (see `files_satisfy_contract_partial`), accepted by the C program's own `test_consistency` for
    every outcome of its random draws, **and the separator clause**: in the template text `t.st` the C reader
    holds, the strands' nucleotides sit at the closed-form positions of the layout, nothing else is non-blank,
    there is at least one `' '` between two nucleotides of different strands and at least two consecutive `' '`
    between two nucleotides of different complexes (`Seps`, see `template_array_separated`); equivalently on the
    maximal blank runs: `SsmContract t (segsOf mode spec)`, i.e. `Ssm.contractB t` and `sepsOk t.st` against the
    layout's own strand list.  Both layouts. -/
theorem files_satisfy_contract {mode : Layout} {stmts : List Stmt} {spec : Spec}
    (hload : Pil.load Generated.nupackTable stmts {} = .ok spec)
    {s : Seeds} {c : Cons} (hs : seeds mode spec = .ok s) (hb : build s = .ok c)
    {a : Arrays} (ha : getConstraints mode spec = .ok a) :
    ∃ t, (readTriple (ssmFiles a) = some t ∧ t.eq.length = t.N ∧ t.wc.length = t.N ∧
      Ssm.contractB t = true ∧
      ∀ pick : Nat → Nat, Ssm.testConsistency t (Ssm.constrain t (startOf t pick)) = true) ∧
      Seps mode (nbText t.st) (bText t.st) spec ∧
      SsmContract t (segsOf mode spec) = true := by
  obtain ⟨t, ht, h1, h2, h3, h4⟩ := files_satisfy_contract_partial hload hs hb ha
  -- the triple read back is the arrays themselves
  obtain ⟨wf, h | h | ⟨a', h⟩⟩ := getConstraintsT_spec pil_lawful (load_specCodes hload) hs hb
  · exact absurd (h.1.symm.trans ha) (by simp)
  · exact absurd (h.1.symm.trans ha) (by simp)
  · have e : a' = a := by
      have := h.1.symm.trans ha
      simpa using this
    have F := arrFacts_of_exact wf (e ▸ h.2.2)
    have et : t = tripleOf a := by
      have := ht.symm.trans (readTriple_ssmFiles F)
      simpa using this
    have hseps : Seps mode (nbText t.st) (bText t.st) spec := by
      rw [et]
      cases mode with
      | strand => exact seps_strand_text hload hs hb ha F gap_constants_ok.1
      | struct => exact seps_struct_text hload hs hb ha F gap_constants_ok.2.1 gap_constants_ok.2.2
    refine ⟨t, ⟨ht, h1, h2, h3, h4⟩, hseps, ?_⟩
    unfold SsmContract
    rw [h3, sepsOk_of_seps hseps]
    rfl

/-- The same for the strand layout (the default), with the seeding hypotheses discharged: every strand is a
    complex of its own, two blanks between any two of them. -/
theorem files_satisfy_contract_strand {stmts : List Stmt} {spec : Spec}
    (hload : Pil.load Generated.nupackTable stmts {} = .ok spec)
    {a : Arrays} (ha : getConstraints .strand spec = .ok a) :
    ∃ t, (readTriple (ssmFiles a) = some t ∧ t.eq.length = t.N ∧ t.wc.length = t.N ∧
      Ssm.contractB t = true ∧
      ∀ pick : Nat → Nat, Ssm.testConsistency t (Ssm.constrain t (startOf t pick)) = true) ∧
      SepsStrand (nbText t.st) (bText t.st) spec ∧
      SsmContract t (segsOf .strand spec) = true := by
  obtain ⟨s, c, hs, hb⟩ := seeding_total_strand (load_wf hload)
  exact files_satisfy_contract hload hs hb ha

/-- The same for the structure layout when every non-empty strand occurs in some structure: one complex per
    structure, one blank between its strands, two between structures. -/
theorem files_satisfy_contract_struct {stmts : List Stmt} {spec : Spec}
    (hload : Pil.load Generated.nupackTable stmts {} = .ok spec) (hp : Placed spec)
    {a : Arrays} (ha : getConstraints .struct spec = .ok a) :
    ∃ t, (readTriple (ssmFiles a) = some t ∧ t.eq.length = t.N ∧ t.wc.length = t.N ∧
      Ssm.contractB t = true ∧
      ∀ pick : Nat → Nat, Ssm.testConsistency t (Ssm.constrain t (startOf t pick)) = true) ∧
      SepsStruct (nbText t.st) (bText t.st) spec ∧
      SsmContract t (segsOf .struct spec) = true := by
  obtain ⟨s, c, hs, hb⟩ := seeding_total_struct (load_wf hload) hp
  exact files_satisfy_contract hload hs hb ha

/-- The documented contract implies acceptance by `test_consistency` on the constrained start sequence, for any
    triple (not only the generated ones) and any random draws. -/
theorem contract_accepted {t : Ssm.Triple} (h : Ssm.contractB t = true) (pick : Nat → Nat) :
    Ssm.testConsistency t (Ssm.constrain t (startOf t pick)) = true :=
  consistent_of_contract (of_decide_eq_true h) pick

/-- The written numbers are read back unchanged by the model of the `fscanf(" %lf")` loop, for every list. -/
theorem numbers_read_back (l : List Int) : readInts (printInts l) = l := readInts_printInts l


/-! ### non-vacuity: concrete small documents -/

/-- `get_constraints` on a statement list as the reader hands it over -/
def run (mode : Layout) (l : List Stmt) : Except ConstraintGen.Err Arrays :=
  match Pil.load Generated.nupackTable l {} with
  | .ok s => getConstraints mode s
  | .error _ => .error .assertion

/-- the hypotheses "the seeding succeeds" of the theorems hold on a document -/
def seeded (mode : Layout) (l : List Stmt) : Bool :=
  match Pil.load Generated.nupackTable l {} with
  | .ok s => (match seeds mode s with
    | .ok sd => (match build sd with | .ok _ => true | .error _ => false)
    | .error _ => false)
  | .error _ => false

/-- a duplex: `A = a`, `B = a*`, fully paired; the `S` of the template shows up complemented (`S`) on the other strand -/
def duplex : List Stmt := [
  .seq "a" "NNS".toList, .strand "A" false ["a"], .strand "B" false ["a*"],
  .struct "D" (some "1nt") ["A", "B"] "(((+)))".toList ]

/-- a hairpin pairing a domain of odd length with itself: the middle position is its own partner -/
def hairpin : List Stmt := [
  .seq "a" "NNNNN".toList, .strand "A" false ["a", "a"], .struct "H" (some "1nt") ["A"] "((((()))))".toList ]

/-- `D` (AGT) meets `V` (ACG) through an `equal` line: the common part is `R` (AG) -/
def dv : List Stmt := [
  .seq "a" "DDD".toList, .seq "b" "VVV".toList, .strand "A" false ["a", "b"],
  .struct "S" none ["A"] "......".toList, .equal ["a", "b"] ]

def okIs (r : Except ConstraintGen.Err Arrays) (a : Arrays) : Bool :=
  match r with | .ok b => b == a | .error _ => false

def errIs (r : Except ConstraintGen.Err Arrays) (e : ConstraintGen.Err) : Bool :=
  match r with | .ok _ => false | .error e' => e' == e

example : seeded .strand duplex = true ∧ seeded .struct duplex = true := by decide +kernel

/-- the three files written for the duplex in the strand layout, byte for byte -/
example : (match run .strand duplex with
    | .ok a => ssmFiles a == ⟨"NNS  SNN", "1 2 3 0 0 6 7 8 ", "8 7 6 -1 -1 3 2 1 "⟩
    | .error _ => false) = true := by decide +kernel

/-- they are read back to a triple that satisfies the whole contract, separators included, and the C program's
    acceptance test passes on a start sequence -/
example : (match run .strand duplex with
    | .ok a => (match readTriple (ssmFiles a) with
      | some t => SsmContract t [[3], [3]] && Ssm.testConsistency t (Ssm.constrain t (startOf t (fun i => i)))
      | none => false)
    | .error _ => false) = true := by decide +kernel

/-- two strands, two structures: the duplex `D = A + B` and the single strand `E = A` once more -/
def twoTwo : List Stmt := [
  .seq "a" "NNS".toList, .strand "A" false ["a"], .strand "B" false ["a*"],
  .struct "D" (some "1nt") ["A", "B"] "(((+)))".toList, .struct "E" (some "1nt") ["A"] "...".toList ]

/-- the hypotheses of the full theorems hold on it (seeding in both layouts; every strand placed), and the strands
    the layouts put on the line are: each strand a complex / the structures `[A, B]` and `[A]` -/
example : seeded .strand twoTwo = true ∧ seeded .struct twoTwo = true ∧
    (match Pil.load Generated.nupackTable twoTwo {} with
      | .ok s => segsOf .strand s == [[3], [3]] && segsOf .struct s == [[3, 3], [3]] &&
          s.strands.all (fun o => s.structs.any (fun so => so.strands.contains o.name))
      | .error _ => false) = true := by decide +kernel

/-- strand layout: two blanks between the two strands; structure layout: one blank between the strands of `D`, two
    between `D` and `E`; both texts satisfy the whole contract, separator clause included -/
example : (match run .strand twoTwo, run .struct twoTwo with
    | .ok a, .ok b => (match readTriple (ssmFiles a), readTriple (ssmFiles b) with
      | some t, some u => t.st == "NNS  SNN".toList && SsmContract t [[3], [3]] &&
          u.st == "NNS SNN  NNS".toList && SsmContract u [[3, 3], [3]]
      | _, _ => false)
    | _, _ => false) = true := by decide +kernel

/-- the clause over positions on the structure-layout text above, spelled out for the last nucleotide of `D`
    (position 6) and the first of `E` (position 9): the two blanks 7, 8 lie between; with a single blank there
    (`"NNS SNN NNS"`, positions 6 and 8) it fails -/
example : BlanksBetween (bText "NNS SNN  NNS".toList) 2 6 9 ∧ ¬ BlanksBetween (bText "NNS SNN NNS".toList) 2 6 8 := by
  refine ⟨⟨7, by decide, by decide, ?_⟩, ?_⟩
  · intro j h1 h2
    have : j = 7 ∨ j = 8 := by omega
    rcases this with rfl | rfl <;> (unfold bText; decide)
  · rintro ⟨e, h1, h2, _⟩
    omega

/-- the contract is not trivially true: `wc` pointing at a non-representative, or `eq` not lowest, is rejected -/
example : Ssm.contractB ⟨"NN".toList, [1, 1], [2, -1]⟩ = false ∧ Ssm.contractB ⟨"NN".toList, [2, 2], [-1, -1]⟩ = false := by
  decide +kernel

/-- the separator clause is not trivially true either: one blank between two complexes is too few, and so is a
    missing blank between two strands -/
example : sepsOk "NN N".toList [[2], [1]] = false ∧ sepsOk "NN  N".toList [[2], [1]] = true ∧
    sepsOk "NN N".toList [[2, 1]] = true ∧ sepsOk "NNN".toList [[2, 1]] = false ∧
    sepsOk "NNS SNN NNS".toList [[3, 3], [3]] = false := by decide +kernel

end Pepper.C05
