import PepperProofs.ConstraintGenFiles
/-!
# C05 — the constraint files honour the documented spuriousSSM input contract

Model: `PepperModel/ConstraintGen.lean` — `getConstraints` (= `Convert.get_constraints`), `ssmFiles` (the `eq_map` /
`wc_map` / `st_map` / `print_list` lines of `design()`), `readTriple` (= `load_input_files` of `spuriousSSM.c` for
`template= wc= eq=`), and `PepperModel/Ssm.lean` — `Contract` (the documented contract), `constrain`,
`testConsistency`.
-/
namespace Pepper.C05
open Pepper Pepper.Pil Pepper.ConstraintGen

/-- **The written files satisfy the contract and are accepted.**  Whenever `get_constraints` returns arrays (after
    a successful seeding), the three texts `design()` writes are read back by the model of `load_input_files` to a
    triple `t` of three arrays of one length which satisfies the documented contract `Ssm.Contract`: 1-based
    indices in range; template blank exactly where `eq = 0`, and there `wc = -1`; every template letter a code;
    `eq[eq[i]] = eq[i] ≤ i` (idempotent, lowest member); `wc` and the template constant on `eq` classes; `wc[i]`
    itself a representative, different from `eq[i]`, with `wc[wc[i]] = eq[i]`; paired positions carrying
    complementary codes; last position not blank.  And the C program's own acceptance test
    (`test_consistency` after `constrain`) passes on the start sequence it builds, for every outcome `pick` of its
    random draws.  Both layouts.

    Not covered by this theorem (named `_partial` for that reason): the separator clause of `SsmContract` ("at least
    one blank between strands and two between complexes", `sepsOk` against the layout's strand list) — it is a
    statement about where the layout puts the strands (C04's `layout_exact`), checked by the harness on every
    sampled document. -/
theorem files_satisfy_contract_partial {mode : Layout} {spec : Spec} (ok : SpecCodes Generated.pilTable spec)
    {s : Seeds} {c : Cons} (hs : seeds mode spec = .ok s) (hb : build s = .ok c)
    {a : Arrays} (ha : getConstraints mode spec = .ok a) :
    ∃ t, readTriple (ssmFiles a) = some t ∧ t.eq.length = t.N ∧ t.wc.length = t.N ∧
      Ssm.contractB t = true ∧
      ∀ pick : Nat → Nat, Ssm.testConsistency t (Ssm.constrain t (startOf t pick)) = true := by
  obtain ⟨wf, h | h | ⟨a', h⟩⟩ := getConstraintsT_spec pil_lawful ok hs hb
  · exact absurd (h.1.symm.trans ha) (by simp)
  · exact absurd (h.1.symm.trans ha) (by simp)
  · have e : a' = a := by
      have := h.1.symm.trans ha
      simpa using this
    have G := e ▸ h.2.2
    have ct := contract_of_exact wf G
    refine ⟨tripleOf a, readTriple_ssmFiles (arrFacts_of_exact wf G), ct.2.1, ct.2.2.1, decide_eq_true ct,
      fun pick => consistent_of_contract ct pick⟩

/-- The documented contract implies acceptance by `test_consistency` on the constrained start sequence, for any
    triple (not only the generated ones) and any random draws. -/
theorem contract_accepted {t : Ssm.Triple} (h : Ssm.contractB t = true) (pick : Nat → Nat) :
    Ssm.testConsistency t (Ssm.constrain t (startOf t pick)) = true :=
  consistent_of_contract (of_decide_eq_true h) pick

/-- The written numbers are read back unchanged by the model of the `fscanf(" %lf")` loop, for every list. -/
theorem numbers_read_back (l : List Int) : readInts (printInts l) = l := readInts_printInts l

end Pepper.C05
