import PepperProofs.ConstraintGenFiles
import PepperProofs.ConstraintGenTotalT
/-!
# C05 — the constraint files honour the documented spuriousSSM input contract

Model: `PepperModel/ConstraintGen.lean` — `getConstraints` (= `Convert.get_constraints`), `ssmFiles` (the `eq_map` /
`wc_map` / `st_map` / `print_list` lines of `design()`), `readTriple` (= `load_input_files` of `spuriousSSM.c` for
`template= wc= eq=`), and `PepperModel/Ssm.lean` — `Contract` (the documented contract), `constrain`,
`testConsistency`.
-/
namespace Pepper.C05
open Pepper Pepper.Pil Pepper.ConstraintGen

/-- **The written files satisfy the contract and are accepted.**  For every document the reader accepts: whenever `get_constraints` returns arrays (after
    a successful seeding), the three texts `design()` writes are read back by the model of `load_input_files` to a
    triple `t` of three arrays of one length which satisfies the documented contract `Ssm.Contract`: 1-based
    indices in range; template blank exactly where `eq = 0`, and there `wc = -1`; every template letter a code;
    `eq[eq[i]] = eq[i] ≤ i` (idempotent, lowest member); `wc` and the template constant on `eq` classes; `wc[i]`
    itself a representative, different from `eq[i]`, with `wc[wc[i]] = eq[i]`; paired positions carrying
    complementary codes; last position not blank.  And the C program's own acceptance test
    (`test_consistency` after `constrain`) passes on the start sequence it builds, for every outcome `pick` of its
    random draws.  Both layouts.

    Not covered by this theorem (named `_partial` for that reason): the separator clause of `SsmContract` ("at least
    one blank between strands and two between complexes", `sepsOk` against the layout's strand list) — it is a
    statement about where the layout puts the strands (C04's `layout_exact`), checked by the harness on every
    sampled document. -/
theorem files_satisfy_contract_partial {mode : Layout} {stmts : List Stmt} {spec : Spec}
    (hload : Pil.load Generated.nupackTable stmts {} = .ok spec)
    {s : Seeds} {c : Cons} (hs : seeds mode spec = .ok s) (hb : build s = .ok c)
    {a : Arrays} (ha : getConstraints mode spec = .ok a) :
    ∃ t, readTriple (ssmFiles a) = some t ∧ t.eq.length = t.N ∧ t.wc.length = t.N ∧
      Ssm.contractB t = true ∧
      ∀ pick : Nat → Nat, Ssm.testConsistency t (Ssm.constrain t (startOf t pick)) = true := by
  obtain ⟨wf, h | h | ⟨a', h⟩⟩ := getConstraintsT_spec pil_lawful (load_specCodes hload) hs hb
  · exact absurd (h.1.symm.trans ha) (by simp)
  · exact absurd (h.1.symm.trans ha) (by simp)
  · have e : a' = a := by
      have := h.1.symm.trans ha
      simpa using this
    have G := e ▸ h.2.2
    have ct := contract_of_exact wf G
    refine ⟨tripleOf a, readTriple_ssmFiles (arrFacts_of_exact wf G), ct.2.1, ct.2.2.1, decide_eq_true ct,
      fun pick => consistent_of_contract ct pick⟩

/-- The same for the strand layout (the default), with the seeding hypotheses discharged. -/
theorem files_satisfy_contract_strand_partial {stmts : List Stmt} {spec : Spec}
    (hload : Pil.load Generated.nupackTable stmts {} = .ok spec)
    {a : Arrays} (ha : getConstraints .strand spec = .ok a) :
    ∃ t, readTriple (ssmFiles a) = some t ∧ t.eq.length = t.N ∧ t.wc.length = t.N ∧
      Ssm.contractB t = true ∧
      ∀ pick : Nat → Nat, Ssm.testConsistency t (Ssm.constrain t (startOf t pick)) = true := by
  obtain ⟨s, c, hs, hb⟩ := seeding_total_strand (load_wf hload)
  exact files_satisfy_contract_partial hload hs hb ha

/-- The same for the structure layout when every non-empty strand occurs in some structure. -/
theorem files_satisfy_contract_struct_partial {stmts : List Stmt} {spec : Spec}
    (hload : Pil.load Generated.nupackTable stmts {} = .ok spec) (hp : Placed spec)
    {a : Arrays} (ha : getConstraints .struct spec = .ok a) :
    ∃ t, readTriple (ssmFiles a) = some t ∧ t.eq.length = t.N ∧ t.wc.length = t.N ∧
      Ssm.contractB t = true ∧
      ∀ pick : Nat → Nat, Ssm.testConsistency t (Ssm.constrain t (startOf t pick)) = true := by
  obtain ⟨s, c, hs, hb⟩ := seeding_total_struct (load_wf hload) hp
  exact files_satisfy_contract_partial hload hs hb ha

/-- The documented contract implies acceptance by `test_consistency` on the constrained start sequence, for any
    triple (not only the generated ones) and any random draws. -/
theorem contract_accepted {t : Ssm.Triple} (h : Ssm.contractB t = true) (pick : Nat → Nat) :
    Ssm.testConsistency t (Ssm.constrain t (startOf t pick)) = true :=
  consistent_of_contract (of_decide_eq_true h) pick

/-- The written numbers are read back unchanged by the model of the `fscanf(" %lf")` loop, for every list. -/
theorem numbers_read_back (l : List Int) : readInts (printInts l) = l := readInts_printInts l


/-! ### non-vacuity: concrete small documents -/

/-- `get_constraints` on a statement list as the reader hands it over -/
def run (mode : Layout) (l : List Stmt) : Except ConstraintGen.Err Arrays :=
  match Pil.load Generated.nupackTable l {} with
  | .ok s => getConstraints mode s
  | .error _ => .error .assertion

/-- the hypotheses "the seeding succeeds" of the theorems hold on a document -/
def seeded (mode : Layout) (l : List Stmt) : Bool :=
  match Pil.load Generated.nupackTable l {} with
  | .ok s => (match seeds mode s with
    | .ok sd => (match build sd with | .ok _ => true | .error _ => false)
    | .error _ => false)
  | .error _ => false

/-- a duplex: `A = a`, `B = a*`, fully paired; the `S` of the template shows up complemented (`S`) on the other strand -/
def duplex : List Stmt := [
  .seq "a" "NNS".toList, .strand "A" false ["a"], .strand "B" false ["a*"],
  .struct "D" (some "1nt") ["A", "B"] "(((+)))".toList ]

/-- a hairpin pairing a domain of odd length with itself: the middle position is its own partner -/
def hairpin : List Stmt := [
  .seq "a" "NNNNN".toList, .strand "A" false ["a", "a"], .struct "H" (some "1nt") ["A"] "((((()))))".toList ]

/-- `D` (AGT) meets `V` (ACG) through an `equal` line: the common part is `R` (AG) -/
def dv : List Stmt := [
  .seq "a" "DDD".toList, .seq "b" "VVV".toList, .strand "A" false ["a", "b"],
  .struct "S" none ["A"] "......".toList, .equal ["a", "b"] ]

def okIs (r : Except ConstraintGen.Err Arrays) (a : Arrays) : Bool :=
  match r with | .ok b => b == a | .error _ => false

def errIs (r : Except ConstraintGen.Err Arrays) (e : ConstraintGen.Err) : Bool :=
  match r with | .ok _ => false | .error e' => e' == e

example : seeded .strand duplex = true ∧ seeded .struct duplex = true := by decide +kernel

/-- the three files written for the duplex in the strand layout, byte for byte -/
example : (match run .strand duplex with
    | .ok a => ssmFiles a == ⟨"NNS  SNN", "1 2 3 0 0 6 7 8 ", "8 7 6 -1 -1 3 2 1 "⟩
    | .error _ => false) = true := by decide +kernel

/-- they are read back to a triple that satisfies the whole contract, separators included, and the C program's
    acceptance test passes on a start sequence -/
example : (match run .strand duplex with
    | .ok a => (match readTriple (ssmFiles a) with
      | some t => SsmContract t [[3], [3]] && Ssm.testConsistency t (Ssm.constrain t (startOf t (fun i => i)))
      | none => false)
    | .error _ => false) = true := by decide +kernel

/-- the contract is not trivially true: `wc` pointing at a non-representative, or `eq` not lowest, is rejected -/
example : Ssm.contractB ⟨"NN".toList, [1, 1], [2, -1]⟩ = false ∧ Ssm.contractB ⟨"NN".toList, [2, 2], [-1, -1]⟩ = false := by
  decide +kernel

/-- the separator clause is not trivially true either: one blank between two complexes is too few -/
example : sepsOk "NN N".toList [[2], [1]] = false ∧ sepsOk "NN  N".toList [[2], [1]] = true ∧
    sepsOk "NN N".toList [[2, 1]] = true := by decide +kernel

end Pepper.C05
