import PepperProofs.ConstraintGenSeeds
/-!
# C05 — the constraint files honour the documented spuriousSSM input contract
-/
namespace Pepper.C05
open Pepper Pepper.Pil Pepper.ConstraintGen Pepper.LinkSpec Pepper.Closure

/-- the three arrays have one length -/
theorem arrays_equal_length {tbl : CodeTable} (hl : tbl.lawful = true) {mode : Layout} {spec : Spec}
    (ok : SpecCodes tbl spec) {s : Seeds} {c : Cons} (hs : seeds mode spec = .ok s) (hb : build s = .ok c)
    {a : Arrays} (ha : getConstraintsT tbl mode spec = .ok a) :
    a.2.1.length = a.1.length ∧ a.2.2.length = a.1.length := by
  obtain ⟨_, h | h | ⟨a', h⟩⟩ := getConstraintsT_spec hl ok hs hb
  · exact absurd (h.1.symm.trans ha) (by simp)
  · exact absurd (h.1.symm.trans ha) (by simp)
  · have : a' = a := by
      have := h.1.symm.trans ha
      simpa using this
    exact this ▸ ⟨h.2.2.len_wc, h.2.2.len_st⟩

end Pepper.C05
