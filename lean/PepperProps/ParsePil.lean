import PepperModel.Generated.Tables
import PepperProofs.ParsePil
import PepperProofs.ParsePilLoad
import PepperProofs.ParsePilNames
import PepperProps.C06
/-!
# ParsePil — the designer's PIL *text* reader, tied to the compile model's emitter

Model: `PepperModel/ParsePil.lean` (`parsePil tbl text`), a line-by-line mirror of `design/PIL_parser.py`
(`load_spec` + the four statement regexes of `utils.match`; the reader is `re`-based, NOT a pyparsing grammar) that
returns the calls `load_spec` makes on `PIL_class.Spec` as the `Pil.Stmt` list `Pil.load` consumes (a `kinetic` line
makes no call).  `harness/parsecorr_pil.py` runs the real `load_spec` on the same bytes (recording the calls) and
compares.  Proofs: `PepperProofs/ParsePil.lean` (scanners, line shapes, documents, round trip),
`PepperProofs/ParsePilLoad.lean` (`structsNonempty` from `Comp.load`), `PepperProofs/ParsePilNames.lean` (the names
predicate from a predicate on the sources).

The theorems close the gap "the theorems start from statements, the designer starts from text":

* (a) `parse_emit_roundtrip` (+ `_component`, `_terminated`, `_file`): the text the compile model emits
  (`Sys.emitPilInst` / `Comp.emitPil`, one line per statement) parses to exactly the statement list the end-to-end
  theorems use (`Emit.instStmts` / `Emit.compStmts`), under the decidable predicate `instEmitOk` / `compEmitOk` on the
  loaded tree.  What the predicate says, and where each clause comes from:
  - every NAME the emitter writes is non-empty over the reader's alphabet `[A-Za-z0-9_-]` (`nameOk`, collected in
    `instNamesOk` / `compNamesOk`).  The existing compile well-formedness says nothing about the characters of names
    (the compile model takes arbitrary strings; the source readers decide them), so this cannot follow from it; it
    FOLLOWS from `Comp.load` / `Sys.loadFile` and a decidable predicate on the SOURCES (`names_of_compile`): the prefix is
    over the alphabet (`charsOk`), every name a component statement declares is (`srcCharsOk`), every instance and
    signal name of a system is (`sysCharsOk`) — all other names written are those, `_Anon<k>`, or found in the tables;
  - template letters are codes of the reader's table and not white space / `:` / `#`; structure texts are over `.()+`;
    every structure has a strand — all three FOLLOW from `Pil.load` accepting the statements
    (`emitOk_of_load`), which C01/C02 prove for compiled programs;
  - no structure text is empty — FOLLOWS from `Comp.load` / `Sys.loadFile` (`load_structsNonempty`,
    `loadFile_structsNonempty`: zero-length strands are refused);
  - the printed `%g` parameter is over `[A-Za-z0-9_.]` and printed `%f` rates are digits and a point (part of
    `instNamesOk`; true whenever the stored decimals are digit strings).
* (b) `parse_names_wellformed`: every statement of an ACCEPTED document has the shape `stmtWF`.
* (c) `end_to_end_component_from_text`, `end_to_end_from_text`: C06's end-to-end theorems with the hypothesis
  `Pil.load … (compStmts st)` replaced by "the emitted TEXT parses to `stmts` and `Pil.load` accepts `stmts`"; the
  `…_src` versions take the names hypothesis on the sources instead of on the loaded tree.
-/
namespace Pepper.ParsePil.Props
open Pepper Pepper.ParsePil

/-! ### (a) round trip -/

/-- **(a) Round trip, whole tree.**  For every instance tree satisfying the decidable predicate `instEmitOk tbl`
    (names over `[A-Za-z0-9_-]`, templates over the table's codes, structures non-empty over `.()+` with at least one
    strand, printed numerals over `[0-9.]`): the document made of the lines `Sys.emitPilInst` emits, joined by `\n`,
    is accepted by the reader and yields exactly `Emit.instStmts inst` — the statement list of C02/C04/C06. -/
theorem parse_emit_roundtrip {tbl : CodeTable} {inst : Sys.Inst} (h : instEmitOk tbl inst = true) :
    parsePil tbl (String.intercalate "\n" (Sys.emitPilInst inst)) = .ok (Emit.instStmts inst) :=
  parsePil_intercalate (reads_inst tbl inst h).1 (reads_inst tbl inst h).2

/-- **(a) Round trip, one component**: `Comp.emitPil` (including its `kinetic` lines, which leave no statement)
    parses to `Emit.compStmts`. -/
theorem parse_emit_roundtrip_component {tbl : CodeTable} {st : Comp.St} (h : compEmitOk tbl st = true) :
    parsePil tbl (String.intercalate "\n" (Comp.emitPil st)) = .ok (Emit.compStmts st) :=
  parsePil_intercalate (reads_comp tbl st h).1 (reads_comp tbl st h).2

/-- the same with every line newline-terminated (as `outfile.write("…\n")` leaves the file) -/
theorem parse_emit_roundtrip_terminated {tbl : CodeTable} {inst : Sys.Inst} (h : instEmitOk tbl inst = true) :
    parsePil tbl (String.join ((Sys.emitPilInst inst).map (· ++ "\n"))) = .ok (Emit.instStmts inst) :=
  parsePil_unlines (reads_inst tbl inst h).1 (reads_inst tbl inst h).2

/-- **(a) Round trip, the file as the compiler writes it**: ANY list of newline-free lines whose non-blank,
    non-comment lines (`isBlank`: nothing left after `#…` and white space are removed) are exactly the emitted
    statement lines, each written with a terminating `\n` — e.g. with the `#` / `## Component …` banner lines of
    `output_synthesis` in between — parses to `Emit.instStmts inst`. -/
theorem parse_emit_roundtrip_file {tbl : CodeTable} {inst : Sys.Inst} (h : instEmitOk tbl inst = true)
    {file : List String} (hfile : file.filter (fun l => !isBlank l) = Sys.emitPilInst inst)
    (hnl : ∀ l ∈ file, ∀ c ∈ l.toList, c ≠ '\n' ∧ c ≠ '\r') :
    parsePil tbl (String.join (file.map (· ++ "\n"))) = .ok (Emit.instStmts inst) :=
  parsePil_file hfile hnl (reads_inst tbl inst h).1

/-- **Where the predicate comes from (trees).**  If the reader's object model accepts the statements
    (`Pil.load … = .ok`, which C02 proves for compiled trees), the table's code letters are not white space / `:` /
    `#` and contain `N` (decidable; true of the generated tables, see `tables_ok`), every name is over the reader's
    alphabet (`instNamesOk`) and no structure text is empty (`instStructsNonempty`, which `loadFile_structsNonempty`
    provides), then `instEmitOk` holds. -/
theorem emitOk_of_load {tbl : CodeTable} (ht : tableCharsOk tbl = true) (hN : tbl.isCode 'N' = true)
    {inst : Sys.Inst} {spec : Pil.Spec} (hload : Pil.load tbl (Emit.instStmts inst) {} = .ok spec)
    (hn : instNamesOk inst = true) (hz : instStructsNonempty inst = true) : instEmitOk tbl inst = true :=
  instEmitOk_of_load ht hN inst [] [] {} spec (by simpa using hload) hn hz

/-- the same for one component -/
theorem compEmitOk_of_load {tbl : CodeTable} (ht : tableCharsOk tbl = true)
    {st : Comp.St} {spec : Pil.Spec} (hload : Pil.load tbl (Emit.compStmts st) {} = .ok spec)
    (hn : compNamesOk st = true) (hz : structsNonempty st = true) : compEmitOk tbl st = true :=
  ParsePil.compEmitOk_of_load ht (pre := []) (post := []) (by simpa using hload) hn hz

/-- **No structure text is empty in anything the compiler returns** (zero-length strands are refused, a structure
    has one segment per strand): components and trees. -/
theorem structsNonempty_of_compile :
    (∀ {src : Comp.Src} {n : Nat} {pfx : String} {a : Nat} {st : Comp.St} {a' : Nat},
      Comp.load src n pfx a = .ok (st, a') → structsNonempty st = true) ∧
    (∀ {b : Sys.Bundle} {fuel : Nat} {base : String} {args : Nat} {argKey pfx path : String}
      {includes : List String} {anon : Nat} {inst : Sys.Inst} {a' : Nat},
      Sys.loadFile b fuel base args argKey pfx path includes anon = .ok (inst, a') →
      instStructsNonempty inst = true) :=
  ⟨load_structsNonempty, loadFile_structsNonempty⟩

/-- **The names predicate follows from the sources.**  (i) a component loaded under a prefix of name characters from a
    source with `UserNamesOk` whose declared names are non-empty over `[A-Za-z0-9_-]` has `compNamesOk`; (ii) a tree
    loaded from a bundle whose component sources are such and whose system sources name instances and signals over
    the alphabet has `instNamesOk`. -/
theorem names_of_compile :
    (∀ {src : Comp.Src} {n : Nat} {pfx : String} {a : Nat} {st : Comp.St} {a' : Nat},
      Comp.load src n pfx a = .ok (st, a') → Comp.UserNamesOk src = true → charsOk pfx = true →
      srcCharsOk src = true → compNamesOk st = true) ∧
    (∀ {b : Sys.Bundle} {fuel : Nat} {base : String} {args : Nat} {argKey pfx path : String}
      {includes : List String} {anon : Nat} {inst : Sys.Inst} {a' : Nat},
      Sys.loadFile b fuel base args argKey pfx path includes anon = .ok (inst, a') →
      SysProofs.bundleOk Generated.nupackTable b = true → bundleCharsOk b = true → charsOk pfx = true →
      instNamesOk inst = true) :=
  ⟨fun h hn hp hs => (compNamesOk_of_load h hn hp hs).1,
   fun h hb hc hp => instNamesOk_of_loadFile
    (fun _ _ hl => ⟨(SysProofs.bundleOk_comp hb hl).1, bundleCharsOk_comp hc hl⟩)
    (fun _ _ hl => bundleCharsOk_sys hc hl) h hp⟩

/-- the generated tables satisfy the two table hypotheses -/
theorem tables_ok :
    tableCharsOk Generated.nupackTable = true ∧ Generated.nupackTable.isCode 'N' = true ∧
    tableCharsOk Generated.pilTable = true ∧ Generated.pilTable.isCode 'N' = true := by decide

/-! ### (b) accepted documents -/

/-- **(b) Names in accepted documents.**  Whatever text the reader accepts, every statement it hands to `Spec` has
    the shape `stmtWF`: the declared name is non-empty over `[A-Za-z0-9_-]`; a template consists of codes of the table
    without `:` or white space; the items of a super-sequence / strand are non-empty tokens without white space or
    `:`; a bracketed structure parameter is non-empty over `[A-Za-z0-9_.]` (so `[no-opt]` is never accepted); a
    structure has at least one strand field, no field contains `+` or `:`, and its text is over `.()+`; the members of
    an `equal` line are non-empty tokens without white space; and no `kinetic` statement is produced. -/
theorem parse_names_wellformed {tbl : CodeTable} {text : String} {stmts : List Pil.Stmt}
    (h : parsePil tbl text = .ok stmts) : ∀ s ∈ stmts, stmtWF tbl s = true :=
  parseLines_wf h

/-- in particular the declared names -/
theorem parse_declared_names {tbl : CodeTable} {text : String} {stmts : List Pil.Stmt}
    (h : parsePil tbl text = .ok stmts) :
    (∀ n t, Pil.Stmt.seq n t ∈ stmts → nameOk n = true) ∧
    (∀ n its, Pil.Stmt.sup n its ∈ stmts → nameOk n = true) ∧
    (∀ n d its, Pil.Stmt.strand n d its ∈ stmts → nameOk n = true) ∧
    (∀ n p ss st, Pil.Stmt.struct n p ss st ∈ stmts → nameOk n = true) := by
  have hw := parse_names_wellformed h
  refine ⟨fun n t hm => ?_, fun n its hm => ?_, fun n d its hm => ?_, fun n p ss st hm => ?_⟩
  · have := hw _ hm; simp only [stmtWF, Bool.and_eq_true] at this; exact this.1
  · have := hw _ hm; simp only [stmtWF, Bool.and_eq_true] at this; exact this.1
  · have := hw _ hm; simp only [stmtWF, Bool.and_eq_true] at this; exact this.1
  · have := hw _ hm; simp only [stmtWF, Bool.and_eq_true] at this; exact this.1.1.1.1

/-! ### (c) the end-to-end theorems, from the emitted text -/

section
open Pepper.Pil Pepper.ConstraintGen Pepper.LinkSpec Pepper.EndToEnd Pepper.Comp

/-- **(c) C06 end to end for one component, from the TEXT.**  `Pepper.C06.end_to_end_component` with its hypothesis
    "`Pil.load` accepts `Emit.compStmts st`" replaced by: the reader parses the emitted text (the lines of
    `Comp.emitPil st` joined by `\n`) to SOME statement list `stmts`, and `Pil.load` accepts `stmts`.  The only new
    hypothesis is on names: `compNamesOk st` (every emitted name is non-empty over `[A-Za-z0-9_-]`, printed numerals
    over `[0-9.]`); everything else the round trip needs follows from the compile hypotheses. -/
theorem end_to_end_component_from_text {src : Comp.Src} {n : Nat} {pfx : String} {anon : Nat} {st : Comp.St} {a' : Nat}
    (hcomp : Comp.load src n pfx anon = .ok (st, a'))
    (hnames : Comp.UserNamesOk src = true) (hcodes : Comp.CodesOk Generated.nupackTable src = true)
    (hchars : compNamesOk st = true)
    {stmts : List Pil.Stmt}
    (hparse : parsePil Generated.nupackTable (String.intercalate "\n" (Comp.emitPil st)) = .ok stmts)
    {spec : Spec} (hload : Pil.load Generated.nupackTable stmts {} = .ok spec)
    (hn : MfeNamesDistinct spec) {a : Arrays} (ha : getConstraints .strand spec = .ok a) {nts : List Char}
    (hg : ArraysGood a nts) :
    ∃ (o : Denote.Out) (ports : List (List Nuc × Bool)) (asg : Var → Base) (assigned : Mfe.Assigned) (out : Finish.Out),
      Denote.denoteComp src pfx anon = .ok (o, ports, a') ∧
      Mfe.processResults Generated.pilTable spec (startOf .strand spec) nts = .ok (assigned, strandSeqs spec asg) ∧
      Mfe.output Generated.pilTable spec assigned (strandSeqs spec asg) = some (mfeLines Generated.pilTable spec asg) ∧
      Finish.apply Generated.dnaTable (.comp st) (mfeDesign Generated.pilTable spec asg) = .ok out ∧
      Sat Generated.pilTable (o.design []) asg ∧ Entries Generated.pilTable (o.design []) asg out ∧
      SatSrc Generated.pilTable (o.design []) out := by
  obtain ⟨spec', _, _, hload', _, _⟩ := end_to_end_comp hcomp hnames hcodes
  have hok := compEmitOk_of_load tables_ok.1 hload' hchars (load_structsNonempty hcomp)
  rw [parse_emit_roundtrip_component hok] at hparse
  cases hparse
  exact Pepper.C06.end_to_end_component hcomp hnames hcodes hload hn ha hg

/-- **(c), names hypothesis on the source**: the same with `compNamesOk st` replaced by `charsOk pfx` (the prefix is
    over `[A-Za-z0-9_-]`) and `srcCharsOk src` (every declared name is non-empty over it) -/
theorem end_to_end_component_from_text_src {src : Comp.Src} {n : Nat} {pfx : String} {anon : Nat} {st : Comp.St} {a' : Nat}
    (hcomp : Comp.load src n pfx anon = .ok (st, a'))
    (hnames : Comp.UserNamesOk src = true) (hcodes : Comp.CodesOk Generated.nupackTable src = true)
    (hpfx : charsOk pfx = true) (hsrc : srcCharsOk src = true)
    {stmts : List Pil.Stmt}
    (hparse : parsePil Generated.nupackTable (String.intercalate "\n" (Comp.emitPil st)) = .ok stmts)
    {spec : Spec} (hload : Pil.load Generated.nupackTable stmts {} = .ok spec)
    (hn : MfeNamesDistinct spec) {a : Arrays} (ha : getConstraints .strand spec = .ok a) {nts : List Char}
    (hg : ArraysGood a nts) :
    ∃ (o : Denote.Out) (ports : List (List Nuc × Bool)) (asg : Var → Base) (assigned : Mfe.Assigned) (out : Finish.Out),
      Denote.denoteComp src pfx anon = .ok (o, ports, a') ∧
      Mfe.processResults Generated.pilTable spec (startOf .strand spec) nts = .ok (assigned, strandSeqs spec asg) ∧
      Mfe.output Generated.pilTable spec assigned (strandSeqs spec asg) = some (mfeLines Generated.pilTable spec asg) ∧
      Finish.apply Generated.dnaTable (.comp st) (mfeDesign Generated.pilTable spec asg) = .ok out ∧
      Sat Generated.pilTable (o.design []) asg ∧ Entries Generated.pilTable (o.design []) asg out ∧
      SatSrc Generated.pilTable (o.design []) out :=
  end_to_end_component_from_text hcomp hnames hcodes (names_of_compile.1 hcomp hnames hpfx hsrc) hparse hload hn ha hg

/-- the statement list the reader obtains from a compiled component's text IS `Emit.compStmts` -/
theorem parse_of_compile_component {src : Comp.Src} {n : Nat} {pfx : String} {anon : Nat} {st : Comp.St} {a' : Nat}
    (hcomp : Comp.load src n pfx anon = .ok (st, a'))
    (hnames : Comp.UserNamesOk src = true) (hcodes : Comp.CodesOk Generated.nupackTable src = true)
    (hchars : compNamesOk st = true) :
    parsePil Generated.nupackTable (String.intercalate "\n" (Comp.emitPil st)) = .ok (Emit.compStmts st) := by
  obtain ⟨spec', _, _, hload', _, _⟩ := end_to_end_comp hcomp hnames hcodes
  exact parse_emit_roundtrip_component (compEmitOk_of_load tables_ok.1 hload' hchars (load_structsNonempty hcomp))

/-- **(c) C06 end to end for systems to any depth, from the TEXT** (`Pepper.C06.end_to_end`). -/
theorem end_to_end_from_text {b : Sys.Bundle} {fuel : Nat} {base : String} {args : Nat} {argKey pfx path : String}
    {includes : List String} {anon : Nat} {inst : Sys.Inst} {a' : Nat}
    (hfile : Sys.loadFile b fuel base args argKey pfx path includes anon = .ok (inst, a'))
    (hb : SysProofs.bundleOk Generated.nupackTable b = true)
    (hchars : instNamesOk inst = true)
    {stmts : List Pil.Stmt}
    (hparse : parsePil Generated.nupackTable (String.intercalate "\n" (Sys.emitPilInst inst)) = .ok stmts)
    {spec : Spec} (hload : Pil.load Generated.nupackTable stmts {} = .ok spec)
    (hn : MfeNamesDistinct spec) {a : Arrays} (ha : getConstraints .strand spec = .ok a) {nts : List Char}
    (hg : ArraysGood a nts) :
    ∃ (d : Design) (ports : List (List Nuc × Bool)) (asg : Var → Base) (assigned : Mfe.Assigned) (out : Finish.Out),
      Denote.denoteFile b fuel base args argKey pfx path includes anon = .ok (d, ports, a') ∧
      Mfe.processResults Generated.pilTable spec (startOf .strand spec) nts = .ok (assigned, strandSeqs spec asg) ∧
      Mfe.output Generated.pilTable spec assigned (strandSeqs spec asg) = some (mfeLines Generated.pilTable spec asg) ∧
      Finish.apply Generated.dnaTable inst (mfeDesign Generated.pilTable spec asg) = .ok out ∧
      Sat Generated.pilTable d asg ∧ Entries Generated.pilTable d asg out ∧ SatSrc Generated.pilTable d out := by
  obtain ⟨spec', _, _, hload', _, _⟩ := end_to_end_tree hfile hb
  have hok := emitOk_of_load tables_ok.1 tables_ok.2.1 hload' hchars (loadFile_structsNonempty hfile)
  rw [parse_emit_roundtrip hok] at hparse
  cases hparse
  obtain ⟨d, ports, asg, assigned, out, h1, h2, h3, h4, h5, h6, _⟩ := Pepper.C06.end_to_end hfile hb hload hn ha hg
  exact ⟨d, ports, asg, assigned, out, h1, h2, h3, h4, h5, h6, asg, h5, h6⟩

/-- **(c), systems, names hypothesis on the sources** (`bundleCharsOk`, `charsOk pfx`) -/
theorem end_to_end_from_text_src {b : Sys.Bundle} {fuel : Nat} {base : String} {args : Nat} {argKey pfx path : String}
    {includes : List String} {anon : Nat} {inst : Sys.Inst} {a' : Nat}
    (hfile : Sys.loadFile b fuel base args argKey pfx path includes anon = .ok (inst, a'))
    (hb : SysProofs.bundleOk Generated.nupackTable b = true)
    (hchars : bundleCharsOk b = true) (hpfx : charsOk pfx = true)
    {stmts : List Pil.Stmt}
    (hparse : parsePil Generated.nupackTable (String.intercalate "\n" (Sys.emitPilInst inst)) = .ok stmts)
    {spec : Spec} (hload : Pil.load Generated.nupackTable stmts {} = .ok spec)
    (hn : MfeNamesDistinct spec) {a : Arrays} (ha : getConstraints .strand spec = .ok a) {nts : List Char}
    (hg : ArraysGood a nts) :
    ∃ (d : Design) (ports : List (List Nuc × Bool)) (asg : Var → Base) (assigned : Mfe.Assigned) (out : Finish.Out),
      Denote.denoteFile b fuel base args argKey pfx path includes anon = .ok (d, ports, a') ∧
      Mfe.processResults Generated.pilTable spec (startOf .strand spec) nts = .ok (assigned, strandSeqs spec asg) ∧
      Mfe.output Generated.pilTable spec assigned (strandSeqs spec asg) = some (mfeLines Generated.pilTable spec asg) ∧
      Finish.apply Generated.dnaTable inst (mfeDesign Generated.pilTable spec asg) = .ok out ∧
      Sat Generated.pilTable d asg ∧ Entries Generated.pilTable d asg out ∧ SatSrc Generated.pilTable d out :=
  end_to_end_from_text hfile hb (names_of_compile.2 hfile hb hchars hpfx) hparse hload hn ha hg

/-- the text of every compiled tree reads back as `Emit.instStmts`, hypotheses on the sources only -/
theorem parse_of_compile {b : Sys.Bundle} {fuel : Nat} {base : String} {args : Nat} {argKey pfx path : String}
    {includes : List String} {anon : Nat} {inst : Sys.Inst} {a' : Nat}
    (hfile : Sys.loadFile b fuel base args argKey pfx path includes anon = .ok (inst, a'))
    (hb : SysProofs.bundleOk Generated.nupackTable b = true)
    (hchars : bundleCharsOk b = true) (hpfx : charsOk pfx = true) :
    parsePil Generated.nupackTable (String.intercalate "\n" (Sys.emitPilInst inst)) = .ok (Emit.instStmts inst) := by
  obtain ⟨spec', _, _, hload', _, _⟩ := end_to_end_tree hfile hb
  exact parse_emit_roundtrip (emitOk_of_load tables_ok.1 tables_ok.2.1 hload'
    (names_of_compile.2 hfile hb hchars hpfx) (loadFile_structsNonempty hfile))

end

/-! ### non-vacuity and the reader's corner cases (all checked against the real reader by the harness) -/

/-- a small document in free spelling -/
example : parsePil Generated.nupackTable
    "# duplex\nsequence a = NNNN : 4\nsup-sequence s = a a* : 8\nstrand [dummy] T = s\n\tstructure [1nt] D = T : ....((+)) \nequal a a\nkinetic [0.000000 /M/s < k < inf /M/s] D -> D\n" =
    .ok [.seq "a" "NNNN".toList, .sup "s" ["a", "a*"], .strand "T" true ["s"],
         .struct "D" (some "1nt") ["T"] "....((+))".toList, .equal ["a", "a"]] := by decide +kernel

/-- the compiled duplex of C06 satisfies the predicate, and its text reads back -/
example : compEmitOk Generated.nupackTable Pepper.C06.dupSt = true := by decide +kernel

example : parsePil Generated.nupackTable (String.intercalate "\n" (Comp.emitPil Pepper.C06.dupSt)) =
    .ok (Emit.compStmts Pepper.C06.dupSt) := parse_emit_roundtrip_component (by decide +kernel)

/-- the source of the duplex satisfies the source predicate -/
example : srcCharsOk Pepper.C06.dupSrc = true ∧ charsOk "d-" = true := by decide +kernel

/-- the two-gate system of C02 satisfies the tree predicate -/
example : Pepper.C02.exTree.map (instEmitOk Generated.nupackTable) = some true := by decide +kernel

/-- the reader's parameter alphabet is `[\w.+-]` since repair F18 (a bound printed by `%g` with an exponent, `[1e+06nt]`, is
    readable; so is `[no-opt]`); other characters are still a syntax error -/
example : (parsePil Generated.nupackTable "structure [1e+06nt] S = s : ...\n").toOption.isSome = true ∧
    (parsePil Generated.nupackTable "structure [no-opt] S = s : ...\n").toOption.isSome = true ∧
    parsePil Generated.nupackTable "structure [1,5nt] S = s : ...\n" = .error .structSyntax := by decide +kernel

/-- a comment on an UNTERMINATED last line is not removed (`re.sub(r"#.*\n", …)`): the same line is accepted with a
    final newline and rejected without -/
example : parsePil Generated.nupackTable "sequence a = NNN # c\n" = .ok [.seq "a" "NNN".toList] ∧
    parsePil Generated.nupackTable "sequence a = NNN # c" = .error .seqSyntax := by decide +kernel

/-- an empty template needs two blanks between `=` and `:` -/
example : parsePil Generated.nupackTable "sequence a =  : 0\n" = .ok [.seq "a" []] ∧
    parsePil Generated.nupackTable "sequence a = : 0\n" = .error .seqSyntax := by decide +kernel

/-- a structure line with an empty text is rejected (why `structsNonempty` is needed) -/
example : parsePil Generated.nupackTable "structure [1nt] S = s : \n" = .error .structSyntax := by decide +kernel

/-- strand fields keep inner white space and may be empty; `equal` takes any tokens -/
example : parsePil Generated.nupackTable "structure S = s t + : ..+\nequal a : b = c\n" =
    .ok [.struct "S" none ["s t", ""] "..+".toList, .equal ["a", ":", "b", "=", "c"]] := by decide +kernel

/-- CR and CRLF end lines; form feed and `\x1c`–`\x1f` are white space but do not end a line -/
example : parsePil Generated.nupackTable "sequence a = N\rsequence\x0cb\x1c= N\r\n" =
    .ok [.seq "a" ['N'], .seq "b" ['N']] := by decide +kernel

end Pepper.ParsePil.Props
