import PepperProofs.Finish
import PepperProofs.LoadInvSys
/-!
# C16 — saved compiler state reloads to the same system and matches its `.pil`  (PARTIAL)

PARTIAL, but `pickle` is now INSIDE the model: `PepperModel/Pickle.lean` has a heap of cells with references, the
unpickler `run` (mirror of `pickle._Unpickler`: stack, MARKs, memo, in-place `APPENDS` / `SETITEMS` / `BUILD`), the abstract
pickler `dump` (mirror of `_pickle.c: save` at protocol 4: memo discipline, recursive-tuple re-check, the C batching) and
the canonical form `canon` of a rooted heap; the theorems are in `PepperProps/C16Pickle.lean` (re-checked and audited with
this module).  On every run the harness (section `[pickle model]` of `harness/props/c16.py`, `harness/pickleio.py`) feeds the
REAL bytes of every `out.save` to `run`, walks the in-memory system and the system reloaded in a fresh process by `id()`
exactly as the pickler sees them, canonises all three with the Lean `canon`, and compares `dump` of the walked heap with
the real opcode list.
  PROVED there: equal canonical forms ⇔ isomorphic reachable graphs incl. sharing and cycles (`canon_iso`, `iso_canon`);
  the frame / identity / freshness lemmas of the unpickler; and the ROUND TRIP `roundtrip`: for every heap that is
  `Supported` — atoms, strings, bytes, tuples, lists, string-keyed dicts, classes, instances (`NEWOBJ` / `REDUCE`, dict items,
  state + `BUILD`), an instance's state dict belonging to that instance alone; arbitrary sharing and cycles, in particular
  cycles through instances (`s.wc.wc is s`) — `run (dump h r) = ok (h', r')` and `canon h' r' = canon h r`.  The hypothesis is
  decidable (`supportedB`, `supportedB_sound`) and the driver evaluates it on every in-memory heap of every run: the real
  `.save` heaps satisfy it, so for them the round trip of the abstract pickler / unpickler pair is a theorem.
  `snapshotOfHeap` (model) reads the snapshot of THIS file's `finish_depends_on_snapshot` off a decoded heap; on every run
  the driver decodes the real bytes, reads the snapshot and the harness compares it with the model's own `snapshot` of the
  compile and with the snapshot of the graph reloaded in a fresh process (validated, not proved).
  NOT PROVED: the round trip outside `Supported` (sets / frozensets, more than one batch of 1000 items, non-string dict keys,
  instances with list items or constructor arguments; without any hypothesis the statement is false,
  `roundtripStatement_false`); that `snapshotOfHeap (run bytes)` equals the model's `snapshot` (compared per run).
  NOT MODELLED (validated by the per-run comparisons, or trusted): the C implementation `_pickle` versus the model (tied
  by the per-run comparison of opcodes and graphs: Lean `dump` = real opcode list, Lean `run` on the real bytes = reloaded
  graph); `find_class` in the fresh process (classes found by module path); what `cls.__new__` / a reduce callable really
  returns; `sys.intern` of attribute names; the interpreter's singleton strings (`""` and 1-character strings: the real
  unpickler always returns the singleton, a live graph may hold another object with the same text, e.g. from `"".join` in
  `fix_seq` — the harness compares graphs modulo the identity of such strings); `__setstate__` (none of the pickled
  classes has one — reported if that changes); the 8 bytes of `BINFLOAT` are opaque.
What IS proved in THIS file, over the model of the saved state (`Comp.St` tables, the `Inst`/`SysSt` tree of
`PepperModel/Comp.lean`, `Sys.lean`), the emitted statements (`PepperModel/Emit.lean`) and `finish`
(`PepperModel/Finish.lean`):

(a) `state_matches_pil*`: the object names and lengths of the saved state are exactly those of the
    specification written by the same compile, kind by kind and in order;
(b) `finish_depends_on_snapshot`: finishing reads a saved tree only through its `snapshot` — per component
    (in `System.components` order) the prefix and, per table, names, lengths, is-super / dummy flags, `base_seqs`
    lists and the structures' strand lists.  Two states with equal snapshots finish identically, whatever the
    design.  The harness compares the snapshot of the pickled-and-reloaded real object graph (loaded in a
    subprocess) with that of the in-memory one and with the model's; equality of those is the validated,
    not proved, part.

Definitions (`pilSeqDecls` …, `stSeqDecls` …, `treeSeqDecls`, `allComps`, `depth`, `snapshot`, `SnapComp`)
are in `PepperProofs/Finish.lean`.

Hypotheses: `state_matches_pil` / `state_matches_pil_tree` carry the decidable `constLenB` / `allConstLen`
(every recorded length is the length of the recorded constraint string).  **Discharged by theorem** for
whatever the compiler builds: `state_matches_pil_of_load` / `state_matches_pil_tree_of_load` replace it by
`Comp.load … = .ok (s, _)` / `Sys.loadFile … = .ok (inst, _)` (`PepperProofs/LoadInv.lean` `load_constLen`,
`LoadInvSys.lean` `loadFile_constLen`; needs only that the component sources' statement names are user names,
`StmtNamesOk` — the statement part of C01's `UserNamesOk`).  The driver still evaluates `allConstLen` on every
run; it is now a redundant cross-check (and the only evidence for sources outside `StmtNamesOk`).  The
well-formedness `Finish.wfB` that C06/C17 assume is discharged the same way (`finish_wf_of_load`).
-/
namespace Pepper.C16
open Pepper Pepper.Finish Pepper.Comp Pepper.Sys

/-- (a), one component.  For every saved component state `s`:
    the (full name, length) list of its non-dummy atomic sequences equals the (name, template length) list of
    the `sequence` statements of `Emit.compStmts s` (given that every recorded length is the length of the
    recorded constraint string, `constLenB` — what `Constraint.resolve` guarantees, `resolve_length`);
    its non-dummy super-sequences are the `sup-sequence` statements (names, item names); its strands are the
    `strand` statements (names, dummy flags, item names); its structures are the `structure` statements
    (names, strand name lists, structure strings) — all in order, nothing else. -/
theorem state_matches_pil (s : Comp.St) :
    (constLenB s = true → pilSeqDecls (Emit.compStmts s) = stSeqDecls s) ∧
    pilSupDecls (Emit.compStmts s) = stSupDecls s ∧
    pilStrandDecls (Emit.compStmts s) = stStrandDecls s ∧
    pilStructDecls (Emit.compStmts s) = stStructDecls s :=
  ⟨compStmts_seqDecls s, compStmts_supDecls s, compStmts_strandDecls s, compStmts_structDecls s⟩

/-- (a), whole tree.  The statements of `Emit.instStmts inst` declare, kind by kind, exactly the objects of
    the tree's components concatenated in component order; the only additional declarations are one
    `sequence` per signal of each system (`treeSeqDecls`: after the system's components, name
    `pfx ++ signal`, length the signal's length). -/
theorem state_matches_pil_tree (inst : Inst) :
    (allConstLen inst = true → pilSeqDecls (Emit.instStmts inst) = treeSeqDecls inst) ∧
    pilSupDecls (Emit.instStmts inst) = (allComps inst).flatMap stSupDecls ∧
    pilStrandDecls (Emit.instStmts inst) = (allComps inst).flatMap stStrandDecls ∧
    pilStructDecls (Emit.instStmts inst) = (allComps inst).flatMap stStructDecls :=
  instStmts_decls inst

/-- (a), one component, **for whatever `load` returns** (no `constLenB` hypothesis): the object names and
    lengths of the component the compiler builds from `src` are exactly the declarations of the statements it
    emits, kind by kind and in order -/
theorem state_matches_pil_of_load {src : Comp.Src} {n : Nat} {pfx : String} {a a' : Nat} {s : Comp.St}
    (hload : Comp.load src n pfx a = .ok (s, a')) (hn : LoadInv.StmtNamesOk src = true) :
    pilSeqDecls (Emit.compStmts s) = stSeqDecls s ∧
    pilSupDecls (Emit.compStmts s) = stSupDecls s ∧
    pilStrandDecls (Emit.compStmts s) = stStrandDecls s ∧
    pilStructDecls (Emit.compStmts s) = stStructDecls s :=
  ⟨(state_matches_pil s).1 (LoadInv.load_constLen hload hn), (state_matches_pil s).2⟩

/-- (a), whole tree, **for whatever `loadFile` returns** (no `allConstLen` hypothesis) -/
theorem state_matches_pil_tree_of_load {b : Bundle} (hb : LoadInv.CompNamesOk b) {fuel : Nat} {base : String}
    {args : Nat} {argKey pfx path : String} {includes : List String} {anon : Nat} {inst : Inst} {a' : Nat}
    (hload : Sys.loadFile b fuel base args argKey pfx path includes anon = .ok (inst, a')) :
    pilSeqDecls (Emit.instStmts inst) = treeSeqDecls inst ∧
    pilSupDecls (Emit.instStmts inst) = (allComps inst).flatMap stSupDecls ∧
    pilStrandDecls (Emit.instStmts inst) = (allComps inst).flatMap stStrandDecls ∧
    pilStructDecls (Emit.instStmts inst) = (allComps inst).flatMap stStructDecls :=
  ⟨(state_matches_pil_tree inst).1 (LoadInv.loadFile_constLen hb hload), (state_matches_pil_tree inst).2⟩

/-- the well-formedness `finish` needs to read its relations record by record (`Finish.wfB`: atomic names
    distinct within a component, an atomic sequence is its own single base sequence, strand names distinct)
    holds for whatever `loadFile` returns -/
theorem finish_wf_of_load {b : Bundle} (hb : LoadInv.CompNamesOk b) {fuel : Nat} {base : String}
    {args : Nat} {argKey pfx path : String} {includes : List String} {anon : Nat} {inst : Inst} {a' : Nat}
    (hload : Sys.loadFile b fuel base args argKey pfx path includes anon = .ok (inst, a')) :
    Finish.wfB inst = true :=
  LoadInv.loadFile_finish_wf hb hload

/-- the component order of the `.pil` is the component order `finish` walks (trees nested less than 64 deep:
    `compsOf 64` is the fuelled `System.components` recursion of the finish model) -/
theorem finish_walks_pil_order (inst : Inst) (h : depth inst < 64) : compsOf 64 inst = allComps inst :=
  compsOf_allComps inst 64 h

/-- so the strands `finish` writes are, name for name and flag for flag, the `strand` statements of the
    `.pil`, and the structures it checks are the `structure` statements -/
theorem finished_names_are_pil_names {t : CodeTable} {inst : Inst} (hd : depth inst < 64)
    {d : List (List Char × List Char)} {out : Out} (h : apply t inst d = .ok out) :
    out.strands.map (fun x => (x.1, x.2.1)) = (pilStrandDecls (Emit.instStmts inst)).map (fun x => (x.1, x.2.1)) ∧
    out.structs.map (·.1) = (pilStructDecls (Emit.instStmts inst)).map (·.1) := by
  obtain ⟨outs, ho, rfl⟩ := apply_relations h
  rw [(instStmts_decls inst).2.2.1, (instStmts_decls inst).2.2.2, ← compsOf_allComps inst 64 hd]
  simp only [catOuts, List.map_flatMap]
  constructor
  · refine flatMap_map_eq ho (fun s o hr => ?_)
    simp only [stStrandDecls, List.map_map]
    exact hr.strands.map_eq (fun e x hx => by simp [hx.1, hx.2.1])
  · refine flatMap_map_eq ho (fun s o hr => ?_)
    simp only [stStructDecls, List.map_map]
    exact hr.structs.map_eq (fun e x hx => by simp [hx.1])

/-- (b) `Finish.apply` reads an instance tree only through its snapshot: equal snapshots ⇒ the same result
    (the same outputs or the same error) for every table and every design.  In particular finishing from a
    reloaded state whose snapshot equals that of the in-memory state gives the same result as finishing from
    memory. -/
theorem finish_depends_on_snapshot {t : CodeTable} {i1 i2 : Inst} {d : List (List Char × List Char)}
    (h : snapshot i1 = snapshot i2) : apply t i1 d = apply t i2 d :=
  apply_snapshot h

/-- and through the design file as well -/
theorem finishText_depends_on_snapshot {t : CodeTable} {α : List Char} {i1 i2 : Inst} {text : List Char}
    (h : snapshot i1 = snapshot i2) : finishText t α i1 text = finishText t α i2 text := by
  simp only [finishText, apply_snapshot h]

/-! ### non-vacuity -/

def exComp : Comp.St :=
  { name := "c", pfx := "c-",
    seqs := [⟨"a", false, false, 3, "NNN".toList, [], [⟨"a", false, 3⟩], true⟩,
             ⟨"z", false, false, 0, [], [], [⟨"z", false, 0⟩], true⟩,
             ⟨"b", false, false, 2, "NS".toList, [], [⟨"b", false, 2⟩], true⟩,
             ⟨"ab", true, false, 5, [], [⟨"a", false, 3, false⟩, ⟨"z", false, 0, false⟩, ⟨"b", true, 2, false⟩],
               [⟨"a", false, 3⟩, ⟨"z", false, 0⟩, ⟨"b", true, 2⟩], false⟩],
    strands := [⟨"S", false, 5, [⟨"ab", false, 5, true⟩], [⟨"a", false, 3⟩, ⟨"z", false, 0⟩, ⟨"b", true, 2⟩], true⟩,
                ⟨"D", true, 3, [⟨"a", true, 3, false⟩], [⟨"a", true, 3⟩], true⟩],
    structs := [⟨"T", ⟨['1'], []⟩, ["S", "D"], ".....+...".toList, []⟩] }

def exInst : Inst :=
  .sys (.mk "" "top" "" [] [("sig", [⟨.seq ⟨"a", false, 3, false⟩ [⟨"a", false, 3⟩], "c", false⟩])] [("sig", 3)]
    [("c", .comp exComp)] [] [])

example : allConstLen exInst = true := by decide
example : depth exInst < 64 := by decide

example : pilSeqDecls (Emit.instStmts exInst) = [("c-a", 3), ("c-b", 2), ("sig", 3)] := by decide
example : treeSeqDecls exInst = [("c-a", 3), ("c-b", 2), ("sig", 3)] := by decide
example : pilSupDecls (Emit.instStmts exInst) = [("c-ab", ["c-a", "c-b*"])] := by decide
example : pilStrandDecls (Emit.instStmts exInst) = [("c-S", false, ["c-ab"]), ("c-D", true, ["c-a*"])] := by decide
example : pilStructDecls (Emit.instStmts exInst) = [("c-T", ["c-S", "c-D"], ".....+...".toList)] := by decide

/-- a state that differs in everything `finish` does not read (constraint strings, `seqs` item lists, flags,
    optimisation parameter, structure string, kinetics, the system's signal tables) has the same snapshot … -/
def exInst' : Inst :=
  .sys (.mk "elsewhere" "other" "" [("T", "x")] [] []
    [("renamed", .comp { exComp with
        name := "c2",
        seqs := exComp.seqs.map (fun e => { e with const := [], items := [], inStrand := false, anon := true }),
        strands := exComp.strands.map (fun e => { e with items := [], len := 0, inStructure := false }),
        structs := exComp.structs.map (fun e => { e with opt := ⟨['0'], []⟩, struct := [], bases := [] }) })] [] [])

example : snapshot exInst' = snapshot exInst := by decide
/-- … and one that differs in a `base_seqs` orientation does not -/
example : snapshot (.comp { exComp with strands := exComp.strands.map (fun e => { e with bases := e.bases.map BaseRef.inv }) })
    ≠ snapshot (.comp exComp) := by decide

end Pepper.C16
