import PepperModel.Generated.Tables
import PepperProofs.GcFloat
import PepperProps.C06Text
/-!
# C06, Part 4 — the GC-content field: the `.mfe` text with the token Python prints

`C06.text_level_partial` and `C06.Text.end_to_end_text*` are stated "for any token `g` over `[0-9.-]` that `float()`
accepts" in the GC-content field of a record, because the model's `Mfe.output` writes an opaque `GC` there.  This file
closes that gap.  `PepperModel/GcFloat.lean` models, in exact integer arithmetic (no `Float`), the two steps of

    gc_content = (seq.count("C") + seq.count("G")) / length
    f.write("%s %f %f %d\n" % (seq, 0, gc_content, 0))

— `k / n` is the binary64 number nearest to the rational `k/n` (ties to even), `%f` is that number's EXACT binary value
rounded to six decimals (ties to even) — and `Mfe.outputGc` is `Mfe.output` with that token in every record.

* `division_is_binary64` — what `divRne` computes is a 53-bit significand within half a unit in the last place.
* `gcToken_shape` (T1) — the token is `d.dddddd`, `d ∈ {0,1}`: eight characters, digits around one point; hence it is a
  word over the reader's float alphabet that `float()` accepts — exactly the two hypotheses `text_level_partial` puts on `g`.
* `gcToken_value` (T2) — the token, read back as a decimal `V·10^-6`, satisfies `|V/10^6 − k/n| ≤ 1/(2·10^6) + 2^-53`;
  `gcToken_rounds_the_double`: it is the double rounded to 6 places; `gcToken_zero`, `gcToken_one`.
* `output_writes_gc` — after any successful `process_results`, `Mfe.outputGc` writes exactly the lines `mfeLinesGc`.
* `text_level` (T3, removes the word "partial") — for a readable specification, finishing the TEXT of the records with
  the REAL token is finishing the record list; no hypothesis about a token is left.
* `end_to_end_text_gc`, `_component`, `_struct` — `C06.Text.end_to_end_text*` for the real file: `output` (GC field
  included) writes `mfeLinesGc`, and finishing the newline-join of THOSE LINES succeeds with an `out` that satisfies the source.

The correspondence of `gcToken` with the running interpreter is checked on every run of `harness/props/c06.py`
(all `0 ≤ k ≤ n ≤ 220`, random larger pairs, arbitrary doubles for `%f`, and the whole `.mfe` text byte for byte).
-/
namespace Pepper.C06Gc.Props
open Pepper Pepper.Pil Pepper.ConstraintGen Pepper.LinkSpec Pepper.EndToEnd Pepper.EndToEndText Pepper.GcFloat

/-! ### the number and the token -/

/-- **`k / n` as a binary64.**  For ints `0 < k ≤ n`, the model's quotient `m / 2^s` (`(m, s) = divRne k n`) has a 53-bit
    significand, `2^52 ≤ m ≤ 2^53` (the scaled exact quotient `k·2^s / n` lies in `[2^52, 2^53)`; `m = 2^53` only when
    rounding carries), an exponent `s ≥ 52`, and is within half a unit in the last place of the exact quotient:
    `|m·n − k·2^s| ≤ n/2`.  (Ties go to the even significand: `roundHalfEven`; the exponent range of binary64 plays no
    role for lengths below `2^1022`.) -/
theorem division_is_binary64 {k n : Nat} (hk : 0 < k) (hkn : k ≤ n) :
    2 ^ 52 ≤ (divRne k n).1 ∧ (divRne k n).1 ≤ 2 ^ 53 ∧ 52 ≤ (divRne k n).2 ∧
    2 ^ 52 * n ≤ k * 2 ^ (divRne k n).2 ∧ k * 2 ^ (divRne k n).2 < 2 ^ 53 * n ∧
    2 * ((divRne k n).1 * n) ≤ 2 * (k * 2 ^ (divRne k n).2) + n ∧
    2 * (k * 2 ^ (divRne k n).2) ≤ 2 * ((divRne k n).1 * n) + n := by
  have hk0 : k ≠ 0 := by omega
  obtain ⟨h1, h2, h3, h4⟩ := divRne_normal hk0 hkn
  obtain ⟨h5, h6⟩ := divRne_err k n (by omega)
  exact ⟨h3, h4, divRne_exp k n hk0, h1, h2, h5, h6⟩

/-- **T1, the shape of the token.**  For `0 < n` and `k ≤ n`, `"%f" % (k / n)` is `d.dddddd`: a digit `d ∈ {0, 1}`, a
    point, and the six zero-padded digits of some `f < 10^6`; so it has 8 characters, all digits but the point; it is a
    non-empty word over the `.mfe` reader's float alphabet `nums + "-."` (`okWord isNumChar`), and Python's `float()`
    accepts it (`validFloat`) — the two hypotheses `hg1`, `hg2` of `C06.text_level_partial`. -/
theorem gcToken_shape {k n : Nat} (hn : 0 < n) (hkn : k ≤ n) :
    (∃ d f, d ≤ 1 ∧ f < 1000000 ∧ gcToken k n = digit d :: '.' :: pad6 f) ∧
    (gcToken k n).length = 8 ∧
    (∀ c ∈ gcToken k n, c.isDigit = true ∨ c = '.') ∧
    Finish.okWord Finish.isNumChar (gcToken k n) = true ∧ Finish.validFloat (gcToken k n) = true := by
  have hs := GcFloat.gcToken_shape hn hkn
  refine ⟨hs, ?_, ?_, shape_numWord hs, shape_validFloat hs⟩
  · obtain ⟨d, f, _, _, e⟩ := hs; rw [e]; rfl
  · obtain ⟨d, f, _, _, e⟩ := hs
    rw [e]
    intro c hc
    simp only [pad6, List.mem_cons, List.mem_nil_iff, or_false] at hc
    rcases hc with rfl | rfl | rfl | rfl | rfl | rfl | rfl | rfl
    all_goals first | exact Or.inl (digit_isDigit _) | exact Or.inr rfl

/-- **T2, the value of the token.**  For `0 < n`, `k ≤ n` the token reads back (`tokVal6`: the decimal `d.dddddd` in units
    of `10^-6`) as a `V ≤ 10^6` with `|V/10^6 − k/n| ≤ 1/(2·10^6) + 2^-53`: half a unit of the sixth decimal from the
    printing, `2^-53` (half an ulp of a number `≤ 1`) from the division.  Stated without fractions, multiplied by
    `2^53·10^6·n`: `2^53·|V·n − k·10^6| ≤ n·(2^52 + 10^6)`, the two directions separately in `Nat`. -/
theorem gcToken_value {k n : Nat} (hn : 0 < n) (hkn : k ≤ n) :
    ∃ V, tokVal6 (gcToken k n) = some V ∧ V ≤ 1000000 ∧
      2 ^ 53 * (V * n) ≤ 2 ^ 53 * (k * 1000000) + n * (2 ^ 52 + 1000000) ∧
      2 ^ 53 * (k * 1000000) ≤ 2 ^ 53 * (V * n) + n * (2 ^ 52 + 1000000) :=
  ⟨microOf k n, tokVal6_gcToken hn hkn, (fmtF6_shape (divRne_le_one hn hkn)).2, gcToken_err hn hkn⟩

/-- **`%f` is correctly rounded**: the value `V` of the token is the double `m / 2^s` rounded to six decimals,
    `|V·2^s − m·10^6| ≤ 2^s / 2` (and ties went to the even `V`: `V = roundHalfEven (m·10^6) (2^s)`) -/
theorem gcToken_rounds_the_double {k n : Nat} (hn : 0 < n) (hkn : k ≤ n) :
    ∃ V, tokVal6 (gcToken k n) = some V ∧ V = roundHalfEven ((divRne k n).1 * 1000000) (2 ^ (divRne k n).2) ∧
      2 * (V * 2 ^ (divRne k n).2) ≤ 2 * ((divRne k n).1 * 1000000) + 2 ^ (divRne k n).2 ∧
      2 * ((divRne k n).1 * 1000000) ≤ 2 * (V * 2 ^ (divRne k n).2) + 2 ^ (divRne k n).2 :=
  ⟨microOf k n, tokVal6_gcToken hn hkn, rfl, rhe_err _ _ (Nat.two_pow_pos _)⟩

/-- no `C`, no `G`: `0.000000` -/
theorem gcToken_zero (n : Nat) : gcToken 0 n = "0.000000".toList := GcFloat.gcToken_zero n

/-- only `C` and `G`: `1.000000` -/
theorem gcToken_one {n : Nat} (hn : 0 < n) : gcToken n n = "1.000000".toList := gcToken_self hn

/-- the other three pieces of the record line `"%s %f %f %d"`: `"%f" % 0`, `"%d" % 0` -/
theorem zero_fields : fmtF0 = "0.000000".toList ∧ fmtD0 = "0".toList ∧
    ∀ (seq : List Char) (k n : Nat), recordLine seq k n = seq ++ " 0.000000 ".toList ++ gcToken k n ++ " 0".toList := by
  refine ⟨fmtF0_eq, fmtD0_eq, fun seq k n => ?_⟩
  unfold recordLine
  rw [fmtF0_eq, fmtD0_eq]
  simp

/-! ### the file -/

/-- **`output` with the GC-content field.**  For a loaded specification, after ANY run of `process_results` that
    succeeded and collected the strands' letters under an assignment `asg`, `Mfe.outputGc` — `Convert.output(findmfe=False)`
    with the GC-content printed as Python prints it — succeeds and writes exactly the lines `mfeLinesGc`: the rendering of
    the records `mfeRecsGc` (`mfeRecs` with `"%f %f %d" % (0, k / n, 0)` as numeric fields, `k` the number of `C`/`G`
    letters and `n` the object's length — strand lengths summed for a structure, the forward sequence's token on the
    starred record) and the trailer `Total n(s*) = 0.000000`. -/
theorem output_writes_gc {stmts : List Stmt} {spec : Spec}
    (hload : Pil.load Generated.nupackTable stmts {} = .ok spec) {start : StrandObj → Option Nat} {nts : List Char}
    {asg : Var → Base} {assigned : Mfe.Assigned}
    (hpr : Mfe.processResults Generated.pilTable spec start nts = .ok (assigned, strandSeqs spec asg)) :
    Mfe.outputGc Generated.pilTable spec assigned (strandSeqs spec asg) =
      some (mfeLinesGc Generated.pilTable spec asg) :=
  outputGc_of_processResults pilLawful pil_complBases (load_wf hload) (load_specCodes hload) hpr

/-- the same records as before, but for the numeric fields: the reader extracts the same `name ↦ sequence` list, and
    every record carries the token of a quotient `k / n` with `0 < n`, `k ≤ n` -/
theorem records_differ_in_gc_only {stmts : List Stmt} {spec : Spec}
    (hload : Pil.load Generated.nupackTable stmts {} = .ok spec) (hr : specReadable spec = true) (asg : Var → Base) :
    (mfeRecsGc Generated.pilTable spec asg).map (fun x => (x.2.name, x.2.seq)) = mfeDesign Generated.pilTable spec asg ∧
    ∀ x ∈ mfeRecsGc Generated.pilTable spec asg, ∃ y ∈ mfeRecs Generated.pilTable spec asg, ∃ k n, 0 < n ∧ k ≤ n ∧
      x = (y.1, { y.2 with fields := ["0.000000".toList, gcToken k n, "0".toList] }) := by
  refine ⟨mfeRecsGc_design _ _ _, fun x hx => ?_⟩
  obtain ⟨y, hy, k, n, hn, hkn, rfl⟩ := mem_mfeRecsGc (load_wf hload) (specReadable_iff.1 hr) hx
  exact ⟨y, hy, k, n, hn, hkn, by rw [withFields_eq]; rfl⟩

/-- **T3 — the text level, no longer partial.**  For a loaded specification that is readable (`specReadable`: names over
    `[A-Za-z0-9_-]`, no sequence or strand of length 0, structures with a strand and a text over `.()+` — what
    `C06.Text.spec_readable_of_compile` derives for compiled programs) and EVERY assignment of bases: finishing the TEXT of
    the `.mfe` file `Convert.output` writes — every character of it, the GC-content field being the token Python's
    `"%f" % (count / length)` prints — is finishing the record list.  Compared with `C06.text_level_partial`: no free
    token `g`, no hypotheses `hg1`, `hg2`, `hwf`. -/
theorem text_level {stmts : List Stmt} {spec : Spec}
    (hload : Pil.load Generated.nupackTable stmts {} = .ok spec) (hr : specReadable spec = true)
    (asg : Var → Base) (inst : Sys.Inst) (out : Finish.Out) :
    Finish.finishText Generated.dnaTable Generated.alphaMfeSeq inst
        (Finish.unlines ((mfeLinesGc Generated.pilTable spec asg).map String.toList)) = .ok out ↔
      Finish.apply Generated.dnaTable inst (mfeDesign Generated.pilTable spec asg) = .ok out := by
  rw [← render_mfeLinesGc]
  exact finish_text_gc (load_wf hload) (load_specCodes hload) (specReadable_iff.1 hr) asg inst out

/-- **C06, end to end, through the REAL `.mfe` text (systems to any depth; strand layout).**  Hypotheses of
    `C06.Text.end_to_end_text`.  Conclusion: the source denotes a design `d`; `process_results nts` succeeds; `output`,
    GC-content field included, writes the lines `L = mfeLinesGc …` — the whole file; finishing the saved tree against the
    TEXT `"\n".join(L)` (`Finish.finishText`: `nupack_out_grammar.document` + `read_design` + `apply_design`) succeeds
    with `out`; and `out` satisfies the source.  No token is left free. -/
theorem end_to_end_text_gc {b : Sys.Bundle} {fuel : Nat} {base : String} {args : Nat} {argKey pfx path : String}
    {includes : List String} {anon : Nat} {inst : Sys.Inst} {a' : Nat}
    (hfile : Sys.loadFile b fuel base args argKey pfx path includes anon = .ok (inst, a'))
    (hb : SysProofs.bundleOk Generated.nupackTable b = true)
    (hchars : ParsePil.bundleCharsOk b = true) (hpfx : ParsePil.charsOk pfx = true)
    {spec : Spec} (hload : Pil.load Generated.nupackTable (Emit.instStmts inst) {} = .ok spec)
    (hn : MfeNamesDistinct spec) {a : Arrays} (ha : getConstraints .strand spec = .ok a) {nts : List Char}
    (hg : ArraysGood a nts) :
    ∃ (d : Design) (ports : List (List Nuc × Bool)) (asg : Var → Base) (assigned : Mfe.Assigned)
      (L : List String) (out : Finish.Out),
      Denote.denoteFile b fuel base args argKey pfx path includes anon = .ok (d, ports, a') ∧
      Mfe.processResults Generated.pilTable spec (startOf .strand spec) nts = .ok (assigned, strandSeqs spec asg) ∧
      Mfe.outputGc Generated.pilTable spec assigned (strandSeqs spec asg) = some L ∧
      L = mfeLinesGc Generated.pilTable spec asg ∧
      Finish.finishText Generated.dnaTable Generated.alphaMfeSeq inst (Finish.unlines (L.map String.toList)) = .ok out ∧
      Sat Generated.pilTable d asg ∧ Entries Generated.pilTable d asg out ∧ SatSrc Generated.pilTable d out := by
  obtain ⟨d, ports, asg, assigned, out, hden, hpr, _, hap, hsat, hent, _⟩ :=
    Pepper.C06.end_to_end hfile hb hload hn ha hg
  have hnames := ParsePil.Props.names_of_compile.2 hfile hb hchars hpfx
  have hr := Pepper.C06.Text.spec_readable_of_compile hfile hb hnames hload
  exact ⟨d, ports, asg, assigned, _, out, hden, hpr, output_writes_gc hload hpr, rfl,
    (text_level hload hr asg inst out).2 hap, hsat, hent, ⟨asg, hsat, hent⟩⟩

/-- **the same, one component (strand layout)** -/
theorem end_to_end_text_gc_component {src : Comp.Src} {n : Nat} {pfx : String} {anon : Nat} {st : Comp.St} {a' : Nat}
    (hcomp : Comp.load src n pfx anon = .ok (st, a'))
    (hnames : Comp.UserNamesOk src = true) (hcodes : Comp.CodesOk Generated.nupackTable src = true)
    (hpfx : ParsePil.charsOk pfx = true) (hsrc : ParsePil.srcCharsOk src = true)
    {spec : Spec} (hload : Pil.load Generated.nupackTable (Emit.compStmts st) {} = .ok spec)
    (hn : MfeNamesDistinct spec) {a : Arrays} (ha : getConstraints .strand spec = .ok a) {nts : List Char}
    (hg : ArraysGood a nts) :
    ∃ (o : Denote.Out) (ports : List (List Nuc × Bool)) (asg : Var → Base) (assigned : Mfe.Assigned)
      (L : List String) (out : Finish.Out),
      Denote.denoteComp src pfx anon = .ok (o, ports, a') ∧
      Mfe.processResults Generated.pilTable spec (startOf .strand spec) nts = .ok (assigned, strandSeqs spec asg) ∧
      Mfe.outputGc Generated.pilTable spec assigned (strandSeqs spec asg) = some L ∧
      L = mfeLinesGc Generated.pilTable spec asg ∧
      Finish.finishText Generated.dnaTable Generated.alphaMfeSeq (.comp st) (Finish.unlines (L.map String.toList)) = .ok out ∧
      Sat Generated.pilTable (o.design []) asg ∧ Entries Generated.pilTable (o.design []) asg out ∧
      SatSrc Generated.pilTable (o.design []) out := by
  obtain ⟨o, ports, asg, assigned, out, hden, hpr, _, hap, hsat, hent, hss⟩ :=
    Pepper.C06.end_to_end_component hcomp hnames hcodes hload hn ha hg
  have hchars := ParsePil.Props.names_of_compile.1 hcomp hnames hpfx hsrc
  have hr := Pepper.C06.Text.spec_readable_of_compile_component hcomp hnames hchars hload
  exact ⟨o, ports, asg, assigned, _, out, hden, hpr, output_writes_gc hload hpr, rfl,
    (text_level hload hr asg (.comp st) out).2 hap, hsat, hent, hss⟩

/-- **the same, structure layout** (`--struct-orient`; `Placed spec`: every strand occurs in some structure) -/
theorem end_to_end_text_gc_struct {b : Sys.Bundle} {fuel : Nat} {base : String} {args : Nat} {argKey pfx path : String}
    {includes : List String} {anon : Nat} {inst : Sys.Inst} {a' : Nat}
    (hfile : Sys.loadFile b fuel base args argKey pfx path includes anon = .ok (inst, a'))
    (hb : SysProofs.bundleOk Generated.nupackTable b = true)
    (hchars : ParsePil.bundleCharsOk b = true) (hpfx : ParsePil.charsOk pfx = true)
    {spec : Spec} (hload : Pil.load Generated.nupackTable (Emit.instStmts inst) {} = .ok spec)
    (hp : Placed spec)
    (hn : MfeNamesDistinct spec) {a : Arrays} (ha : getConstraints .struct spec = .ok a) {nts : List Char}
    (hg : ArraysGood a nts) :
    ∃ (d : Design) (ports : List (List Nuc × Bool)) (asg : Var → Base) (assigned : Mfe.Assigned)
      (L : List String) (out : Finish.Out),
      Denote.denoteFile b fuel base args argKey pfx path includes anon = .ok (d, ports, a') ∧
      Mfe.processResults Generated.pilTable spec (startOf .struct spec) nts = .ok (assigned, strandSeqs spec asg) ∧
      Mfe.outputGc Generated.pilTable spec assigned (strandSeqs spec asg) = some L ∧
      L = mfeLinesGc Generated.pilTable spec asg ∧
      Finish.finishText Generated.dnaTable Generated.alphaMfeSeq inst (Finish.unlines (L.map String.toList)) = .ok out ∧
      Sat Generated.pilTable d asg ∧ Entries Generated.pilTable d asg out ∧ SatSrc Generated.pilTable d out := by
  have hnames := ParsePil.Props.names_of_compile.2 hfile hb hchars hpfx
  have hne := (Pepper.C06.Text.lengths_nonzero_of_compile hfile hb hnames hload).2
  obtain ⟨d, ports, asg, assigned, out, hden, hpr, _, hap, hsat, hent, hss⟩ :=
    Pepper.C06.end_to_end_struct hfile hb hload hp hne hn ha hg
  have hr := Pepper.C06.Text.spec_readable_of_compile hfile hb hnames hload
  exact ⟨d, ports, asg, assigned, _, out, hden, hpr, output_writes_gc hload hpr, rfl,
    (text_level hload hr asg inst out).2 hap, hsat, hent, hss⟩

/-! ### non-vacuity -/

open Pepper.C06 Pepper.C06.Text

/-- the division: `2/3` is the double `0x1.5555555555555p-1` = `6004799503160661 / 2^53`, `1/3` has one more binade -/
example : divRne 2 3 = (6004799503160661, 53) ∧ divRne 1 3 = (6004799503160661, 54) ∧ divRne 1 1 = (2 ^ 52, 52) ∧
    divRne 1 10 = (7205759403792794, 56) := by decide +kernel

/-- tokens, evaluated: thirds round, `1/128 = 0.0078125` and `3/128 = 0.0234375` are exact ties of the sixth decimal and go
    to the EVEN digit (`…12`, `…38`), `0.0000005 > 1/2097152 = 0.000000476…` prints as zero, `999999/1000000` is not `1` -/
example : gcToken 2 3 = "0.666667".toList ∧ gcToken 1 3 = "0.333333".toList ∧ gcToken 4 6 = "0.666667".toList ∧
    gcToken 1 128 = "0.007812".toList ∧ gcToken 3 128 = "0.023438".toList ∧ gcToken 1 2097152 = "0.000000".toList ∧
    gcToken 999999 1000000 = "0.999999".toList ∧ gcToken 1999999 2000000 = "1.000000".toList ∧
    gcToken 7 7 = "1.000000".toList ∧ gcToken 0 5 = "0.000000".toList := by decide +kernel

/-- T1 and T2 apply (`k = 4`, `n = 6`): the token reads back as `666667` millionths, `|0.666667 − 2/3| = 3.3·10^-7` -/
example : tokVal6 (gcToken 4 6) = some 666667 ∧ Finish.validFloat (gcToken 4 6) = true := by
  obtain ⟨_, _, _, _, h⟩ := gcToken_shape (k := 4) (n := 6) (by omega) (by omega)
  exact ⟨by decide +kernel, h⟩

/-- the bound of T2 is meant: a token one unit of the sixth decimal off (`0.666668` for `2/3`) violates it -/
example : ¬ (2 ^ 53 * (666668 * 3) ≤ 2 ^ 53 * (2 * 1000000) + 3 * (2 ^ 52 + 1000000)) := by decide

/-- outside the domain the shape fails: `k > n` prints an integer part above `1` -/
example : gcToken 5 2 = "2.500000".toList := by decide +kernel

/-- the record line of the duplex's structure, as `"%s %f %f %d" % ("ACG+CGT", 0, 4 / 6, 0)` prints it -/
example : recordLine "ACG+CGT".toList 4 6 = "ACG+CGT 0.000000 0.666667 0".toList := by decide +kernel

/-- the whole file of the duplex of `C06.lean`, every character, GC-content computed by the model: `4/6` for the structure
    (the `+` is not counted in the length), `2/3` for `a` and the same token again on `a*` -/
example : Finish.unlines ((mfeLinesGc Generated.pilTable dupSpec dupAsg).map String.toList) =
    ("0:d-D\nACG+CGT 0.000000 0.666667 0\n(((+)))\n(((+)))\n" ++
     "1:d-a\nACG 0.000000 0.666667 0\n...\n...\n" ++
     "0:d-a*\nCGT 0.000000 0.666667 0\n...\n...\n" ++
     "Total n(s*) = 0.000000").toList := by decide +kernel

/-- `Mfe.outputGc`, evaluated on the state `process_results` leaves for the duplex -/
example : Mfe.outputGc Generated.pilTable dupSpec [("d-a", "ACG".toList)] [("d-A", "ACG".toList), ("d-B", "CGT".toList)] =
    some ["0:d-D", "ACG+CGT 0.000000 0.666667 0", "(((+)))", "(((+)))", "1:d-a", "ACG 0.000000 0.666667 0", "...", "...",
          "0:d-a*", "CGT 0.000000 0.666667 0", "...", "...", "Total n(s*) = 0.000000"] := by decide +kernel

/-- a template letter is not counted: an undesigned `NNS` has GC-content `0/3` although `S` means `C` or `G`; a structure of
    one `G`-only strand has `1.000000` -/
example : gcCount "NNS".toList = 0 ∧ gcToken (gcCount "NNS".toList) 3 = "0.000000".toList ∧
    gcCount "GGC+GCC".toList = 6 ∧ gcToken (gcCount "GGC+GCC".toList) 6 = "1.000000".toList := by decide +kernel

/-- the end-to-end theorem applies to the duplex: the real text is written, finishing it succeeds, the result satisfies the
    source -/
example : ∃ (o : Denote.Out) (ports : List (List Nuc × Bool)) (asg : Var → Base) (L : List String) (out : Finish.Out),
    Denote.denoteComp dupSrc "d-" 0 = .ok (o, ports, 0) ∧ L = mfeLinesGc Generated.pilTable dupSpec asg ∧
    Finish.finishText Generated.dnaTable Generated.alphaMfeSeq (.comp dupSt) (Finish.unlines (L.map String.toList)) = .ok out ∧
    SatSrc Generated.pilTable (o.design []) out := by
  obtain ⟨o, ports, asg, _, L, out, h1, _, _, h4, h5, _, _, h8⟩ :=
    end_to_end_text_gc_component dup_load dup_hyps.1 dup_hyps.2 dup_chars.2 dup_chars.1 dup_spec dup_distinct
      dup_arrays dup_good
  exact ⟨o, ports, asg, L, out, h1, h4, h5, h8⟩

/-- finishing the evaluated text of the duplex, evaluated -/
example : Finish.finishText Generated.dnaTable Generated.alphaMfeSeq (.comp dupSt)
    (Finish.unlines ((mfeLinesGc Generated.pilTable dupSpec dupAsg).map String.toList)) =
    .ok ⟨[("d-a", "ACG".toList)], [("d-A", false, "ACG".toList), ("d-B", false, "CGT".toList)],
         [("d-D", "ACG+CGT".toList)]⟩ := by decide +kernel

end Pepper.C06Gc.Props
