import PepperProofs.Fs
/-!
# C20 — runs with distinct output names do not interfere

Model: `PepperModel/Fs.lean`.  `footprintOf` mirrors the file-name logic of the three command-line
tools (`compiler.main`, `spurious_design.main/design` + `find_file`, `finish.main/finish`): which files a
run opens for reading (`reads`), tests for existence (`probes`) and creates / truncates / removes
(`writes`).  The second half of the model is an abstract file system with processes whose next
operation may depend on everything they have read so far, schedules (= interleavings) and sequential
execution.

(a) `footprints_disjoint`: distinct names ⇒ disjoint footprints (the scratch files `t.eq/.wc/.st/.sp` of
different temp names can never coincide, by injectivity of string append; collisions between an
arbitrary explicit name and a derived scratch name are excluded by the decidable `sideCond`).
(b) `commute`: for any list of processes with pairwise independent footprints, every complete schedule
ends in the same files as running them one after another in any order, and every process reads the
same values.  (c) `noninterference` puts (a) and (b) together for N tool runs.

**Partial** with respect to the English property in one respect only, which is not a statement about
this model: that the real processes touch nothing outside `footprintOf` is an operating-system-level
fact, observed by the harness (`strace` + directory snapshots), not proved.
-/
namespace Pepper.C20
open Pepper.Fs

/-- Scratch files of two different temp names never coincide, whichever of the four extensions they
    carry: `t ++ e = t' ++ e'` with `e, e' ∈ {.eq,.wc,.st,.sp}` forces `t = t'`. -/
theorem scratch_names_injective {t t' p : String} (h : t ≠ t') (hp : p ∈ tempFiles t) : p ∉ tempFiles t' :=
  tempFiles_disjoint h hp

/-- (a) Two runs (each a compile, a design run or a finish, with any options) whose explicitly given
    names — `--output`, `--save`, `--seqs`, `--strands` after defaulting, and the temp names — are
    pairwise distinct (`namesDistinct`) and which pass the decidable cross-collision check `sideCond`
    (no result or input name of one is literally a scratch file `<temp>.eq/.wc/.st/.sp` of the other; no
    input of one is a result name of the other): their write sets are disjoint and neither reads, or
    tests the existence of, a file the other writes. -/
theorem footprints_disjoint {A B : Invocation} (hn : namesDistinct A B = true) (hs : sideCond A B = true) :
    (∀ p ∈ (footprintOf A).writes, p ∉ (footprintOf B).writes) ∧
    (∀ p, p ∈ (footprintOf A).reads ∨ p ∈ (footprintOf A).probes → p ∉ (footprintOf B).writes) ∧
    (∀ p, p ∈ (footprintOf B).reads ∨ p ∈ (footprintOf B).probes → p ∉ (footprintOf A).writes) := by
  obtain ⟨h1, h2, h3⟩ := footprints_disjoint' hn hs
  exact ⟨h1, fun p hp => h2 p (List.mem_append.2 hp), fun p hp => h3 p (List.mem_append.2 hp)⟩

/-- The cross-collision check holds as soon as a simple naming discipline is followed: no result or
    input name of `A` ends in `.eq`, `.wc`, `.st` or `.sp`, and no input of `A` is a result name of `B`. -/
theorem crossFree_of_naming_discipline {A B : Invocation}
    (h : ∀ n, n ∈ outNames A ∨ n ∈ observes A → hasTempExt n = false)
    (hio : ∀ n ∈ observes A, n ∉ outNames B) : crossFree A B = true :=
  crossFree_of_discipline h hio

/-- (b) Commutation, for N processes.  `js` is any list of processes with declared footprints such that
    each process stays inside its footprint on every branch (`Within`) and the footprints are pairwise
    independent (disjoint write sets, nobody reads another's write set).  Then for EVERY schedule `s`
    (which process moves at each step) that lets all of them finish, and for every order `js'` of
    running them one after another: the final file systems hold the same files with the same contents,
    and in both executions every process reads exactly the values it reads when run alone from the
    initial file system `fs0`. -/
theorem commute {js js' : List Job} (hperm : js'.Perm js)
    (hw : ∀ j ∈ js, j.proc.Within j.reads j.writes) (hi : js.Pairwise Indep)
    (fs0 : Fs) (s : List Nat) (hc : (runSched s (Config.init fs0 js)).complete = true) :
    Fs.same (runSched s (Config.init fs0 js)).fs (runSeq fs0 js').1 ∧
    (runSched s (Config.init fs0 js)).logs = js.map (fun j => (j.proc.run fs0 []).2) ∧
    (runSeq fs0 js').2 = js'.map (fun j => (j.proc.run fs0 []).2) := by
  obtain ⟨a1, a2, a3⟩ := sched_spec hw hi fs0 s hc
  have hw' : ∀ j ∈ js', j.proc.Within j.reads j.writes := fun j hj => hw j (hperm.mem_iff.1 hj)
  have hi' : js'.Pairwise Indep := hperm.symm.pairwise hi (fun h => h.symm)
  obtain ⟨b1, b2, b3⟩ := seq_spec fs0 js' hw' hi' fs0 (fun _ _ _ _ => rfl)
  refine ⟨?_, a1, b1⟩
  exact same_of_spec a2 a3 (fun j hj => b2 j (hperm.mem_iff.2 hj))
    (fun p hp => b3 p (fun j hj => hp j (hperm.mem_iff.1 hj)))

/-- Any two interleavings that let all processes finish end in the same files and the same read values. -/
theorem commute_schedules {js : List Job} (hw : ∀ j ∈ js, j.proc.Within j.reads j.writes) (hi : js.Pairwise Indep)
    (fs0 : Fs) (s s' : List Nat) (hc : (runSched s (Config.init fs0 js)).complete = true)
    (hc' : (runSched s' (Config.init fs0 js)).complete = true) :
    Fs.same (runSched s (Config.init fs0 js)).fs (runSched s' (Config.init fs0 js)).fs ∧
    (runSched s (Config.init fs0 js)).logs = (runSched s' (Config.init fs0 js)).logs := by
  obtain ⟨a1, a2, a3⟩ := commute (List.Perm.refl js) hw hi fs0 s hc
  obtain ⟨b1, b2, _⟩ := commute (List.Perm.refl js) hw hi fs0 s' hc'
  exact ⟨Fs.same_trans a1 (Fs.same_symm b1), a2.trans b2.symm⟩

/-- Sequential execution in any two orders gives the same files. -/
theorem sequential_order_irrelevant {js js' : List Job} (hperm : js'.Perm js)
    (hw : ∀ j ∈ js, j.proc.Within j.reads j.writes) (hi : js.Pairwise Indep) (fs0 : Fs) :
    Fs.same (runSeq fs0 js).1 (runSeq fs0 js').1 := by
  obtain ⟨b1, b2, b3⟩ := seq_spec fs0 js hw hi fs0 (fun _ _ _ _ => rfl)
  have hw' : ∀ j ∈ js', j.proc.Within j.reads j.writes := fun j hj => hw j (hperm.mem_iff.1 hj)
  have hi' : js'.Pairwise Indep := hperm.symm.pairwise hi (fun h => h.symm)
  obtain ⟨c1, c2, c3⟩ := seq_spec fs0 js' hw' hi' fs0 (fun _ _ _ _ => rfl)
  exact same_of_spec b2 b3 (fun j hj => c2 j (hperm.mem_iff.2 hj))
    (fun p hp => c3 p (fun j hj => hp j (hperm.mem_iff.1 hj)))

/-- N runs with pairwise distinct names and no cross-collisions have pairwise independent footprints,
    whatever the processes do inside them. -/
theorem footprints_pairwise {runs : List (Invocation × Proc)}
    (hn : runs.Pairwise (fun a b => namesDistinct a.1 b.1 = true ∧ sideCond a.1 b.1 = true)) :
    (runs.map (fun r => (⟨r.2, observes r.1, writesOf r.1⟩ : Job))).Pairwise Indep := by
  rw [List.pairwise_map]
  exact hn.imp (fun ⟨h1, h2⟩ => footprints_disjoint' h1 h2)

/-- (a)+(b): the property for N concurrent tool runs.  `runs` pairs each command line with ANY process
    that only reads / probes files in that command line's `reads ∪ probes` and only writes files in its
    `writes` (this is what the harness observes of the real tools).  If the names are pairwise distinct
    and free of cross-collisions, every interleaving in which all runs finish produces the same files
    as running them one after another in any order, and every run reads the same values either way. -/
theorem noninterference {runs runs' : List (Invocation × Proc)} (hperm : runs'.Perm runs)
    (hn : runs.Pairwise (fun a b => namesDistinct a.1 b.1 = true ∧ sideCond a.1 b.1 = true))
    (hw : ∀ r ∈ runs, r.2.Within (observes r.1) (writesOf r.1))
    (fs0 : Fs) (s : List Nat)
    (hc : (runSched s (Config.init fs0 (runs.map (fun r => ⟨r.2, observes r.1, writesOf r.1⟩)))).complete = true) :
    Fs.same (runSched s (Config.init fs0 (runs.map (fun r => ⟨r.2, observes r.1, writesOf r.1⟩)))).fs
            (runSeq fs0 (runs'.map (fun r => ⟨r.2, observes r.1, writesOf r.1⟩))).1 ∧
    (runSched s (Config.init fs0 (runs.map (fun r => ⟨r.2, observes r.1, writesOf r.1⟩)))).logs =
      runs.map (fun r => (r.2.run fs0 []).2) ∧
    (runSeq fs0 (runs'.map (fun r => ⟨r.2, observes r.1, writesOf r.1⟩))).2 =
      runs'.map (fun r => (r.2.run fs0 []).2) := by
  have hw' : ∀ j ∈ runs.map (fun r => (⟨r.2, observes r.1, writesOf r.1⟩ : Job)), j.proc.Within j.reads j.writes := by
    intro j hj
    obtain ⟨r, hr, rfl⟩ := List.mem_map.1 hj
    exact hw r hr
  obtain ⟨h1, h2, h3⟩ := commute (hperm.map _) hw' (footprints_pairwise hn) fs0 s hc
  refine ⟨h1, ?_, ?_⟩
  · rw [h2, List.map_map]; rfl
  · rw [h3, List.map_map]; rfl

/-- The straight-line process of a tool run (read the inputs, then write each file of the write set with
    opaque contents that may depend on everything read; a design run without `--just-files` re-reads
    its `.sp` file, writes the output and removes its scratch files) stays inside `footprintOf`. -/
theorem tool_process_within_footprint (i : Invocation) (content : Path → List (Option String) → String) :
    (Proc.ofOps (toolOps i content) []).Within ((footprintOf i).reads ++ (footprintOf i).probes) (footprintOf i).writes :=
  toolJob_within i content

/-! ### non-vacuity -/

/-- defaulting rules of `compiler.main`: `.sys` stripped, `.pil` / `.save` appended; `--des`; explicit names;
    an empty `--output ""` counts as absent -/
example : footprint .compile { arg0 := "Circuit.sys", sources := ["Circuit.sys", "And31.comp"] } =
    ⟨["Circuit.sys", "And31.comp"], ["Circuit.sys", "And31.comp"], ["Circuit.pil", "Circuit.save"]⟩ := by decide
example : (footprint .compile { arg0 := "a.b.comp", des := true, save := some "x" }).writes = ["a.b.des", "x"] := by decide
example : (footprint .compile { arg0 := "Circuit", output := some "", save := some "s1" }).writes = ["Circuit.pil", "s1"] := by decide
/-- only one suffix is stripped, and only a final one -/
example : (footprint .compile { arg0 := "x.sys.sys" }).writes = ["x.sys.pil", "x.sys.save"] := by decide
example : (footprint .compile { arg0 := "x.sysy" }).writes = ["x.sysy.pil", "x.sysy.save"] := by decide

/-- `find_file` + defaults of `spurious_design.main`: `Circuit` resolves to `Circuit.pil`; with `--just-files`
    the four scratch files are written (the `.sp` file too) but not the `.mfe` output -/
example : footprint .design { arg0 := "Circuit", existing := ["Circuit.pil"] } =
    ⟨["Circuit.pil"], ["Circuit", "Circuit.pil"], ["Circuit.eq", "Circuit.wc", "Circuit.st", "Circuit.sp"]⟩ := by decide
example : (footprint .design { arg0 := "Circuit", existing := ["Circuit.pil"], tempname := some "t7", justFiles := false }).writes =
    ["t7.eq", "t7.wc", "t7.st", "t7.sp", "Circuit.mfe"] := by decide
/-- a file literally called `Circuit` wins over `Circuit.pil`, and then nothing is stripped -/
example : footprint .design { arg0 := "Circuit", existing := ["Circuit.pil", "Circuit"], justFiles := false, output := some "o" } =
    ⟨["Circuit", "Circuit.sp"], ["Circuit"], ["Circuit.eq", "Circuit.wc", "Circuit.st", "Circuit.sp", "o"]⟩ := by decide
/-- no input file: `parser.error`, nothing is touched -/
example : (footprint .design { arg0 := "Circuit", existing := ["Other.pil"] }).writes = [] := by decide

/-- defaults of `finish.main` -/
example : footprint .finish { arg0 := "Circuit.mfe" } =
    ⟨["Circuit.save", "Circuit.mfe"], ["Circuit.save", "Circuit.mfe"], ["Circuit.seqs"]⟩ := by decide
example : (footprint .finish { arg0 := "c", seqs := some "s1.seqs", strands := some "s1.strands", save := some "a.save" }) =
    ⟨["a.save", "c.mfe"], ["a.save", "c.mfe"], ["s1.seqs", "s1.strands"]⟩ := by decide

/-- two design runs, a compile and a finish in one directory with distinct names -/
abbrev exD1 : Invocation := ⟨.design, { arg0 := "Circuit", existing := ["Circuit.pil"], tempname := some "t1" }⟩
abbrev exD2 : Invocation := ⟨.design, { arg0 := "Circuit", existing := ["Circuit.pil"], tempname := some "t2" }⟩
abbrev exC : Invocation := ⟨.compile, { arg0 := "Circuit.sys", output := some "o1.pil", save := some "o1.save", sources := ["Circuit.sys"] }⟩
abbrev exF : Invocation := ⟨.finish, { arg0 := "Circuit", seqs := some "s1.seqs" }⟩

/-- the hypotheses of `footprints_disjoint` hold for all six pairs … -/
example : [exD1, exD2, exC, exF].Pairwise (fun a b => namesDistinct a b = true ∧ sideCond a b = true) := by decide
/-- … fail for two design runs that share the (default) temp name … -/
example : namesDistinct ⟨.design, { arg0 := "Circuit", existing := ["Circuit.pil"], output := some "a.mfe" }⟩
    ⟨.design, { arg0 := "Circuit.pil", existing := ["Circuit.pil"], output := some "b.mfe" }⟩ = false := by decide
/-- … for a compile into the default `Circuit.pil` next to a design run that reads it … -/
example : sideCond ⟨.compile, { arg0 := "Circuit.sys" }⟩ exD1 = false := by decide
/-- … and the side condition catches the cross-collision of an output literally named like a scratch file
    although all given names are distinct; the write sets then really overlap -/
example : namesDistinct ⟨.compile, { arg0 := "Circuit", output := some "t1.st", save := some "x.save" }⟩ exD1 = true ∧
    sideCond ⟨.compile, { arg0 := "Circuit", output := some "t1.st", save := some "x.save" }⟩ exD1 = false ∧
    "t1.st" ∈ writesOf ⟨.compile, { arg0 := "Circuit", output := some "t1.st", save := some "x.save" }⟩ ∧
    "t1.st" ∈ writesOf exD1 := by decide

/-- three straight-line processes: each reads the shared source and writes its own files, the contents
    depending on what was read -/
abbrev exContent (tag : String) : Path → List (Option String) → String :=
  fun _ log => tag ++ ":" ++ String.join (log.map (fun v => v.getD "-"))
abbrev exRuns : List (Invocation × Proc) :=
  [(exD1, Proc.ofOps (toolOps exD1 (exContent "d1")) []), (exC, Proc.ofOps (toolOps exC (exContent "c")) []),
   (exD2, Proc.ofOps (toolOps exD2 (exContent "d2")) [])]
abbrev exJobs : List Job := exRuns.map (fun r => ⟨r.2, observes r.1, writesOf r.1⟩)
abbrev exFs0 : Fs := ⟨[("Circuit.pil", some "P"), ("Circuit.sys", some "S")]⟩

/-- the hypotheses of `noninterference` (hence of `commute`) hold for them … -/
example : exRuns.Pairwise (fun a b => namesDistinct a.1 b.1 = true ∧ sideCond a.1 b.1 = true) ∧
    ∀ r ∈ exRuns, r.2.Within (observes r.1) (writesOf r.1) := by
  refine ⟨by decide, ?_⟩
  intro r hr
  simp only [exRuns, List.mem_cons, List.not_mem_nil, or_false] at hr
  rcases hr with rfl | rfl | rfl <;> exact toolJob_within _ _

/-- … there are 13!/(5!·3!·5!) = 72072 interleavings of their 5, 3 and 5 operations; a sample of complete schedules, among them
    the sequential one and a round-robin one, produce the very same directory -/
example : (runSched [0,0,0,0,0,1,1,1,2,2,2,2,2] (Config.init exFs0 exJobs)).complete = true ∧
    (runSched [0,1,2,0,1,2,0,1,2,0,2,0,2] (Config.init exFs0 exJobs)).complete = true ∧
    (runSched [0,1,2,0,1,2,0,1,2,0,2,0,2] (Config.init exFs0 exJobs)).fs.read "o1.save" = some "c:S" ∧
    (runSched [2,2,1,0,0,2,1,1,0,0,2,0,2] (Config.init exFs0 exJobs)).fs.read "t2.wc" = some "d2:P" ∧
    (runSeq exFs0 exJobs).1.read "t2.wc" = some "d2:P" := by decide

/-- all 6 interleavings of two 2-operation processes, enumerated -/
example : interleavings [2, 2] = [[0,0,1,1],[0,1,0,1],[0,1,1,0],[1,0,0,1],[1,0,1,0],[1,1,0,0]] := by decide

/-- The independence hypothesis is needed: two processes that copy a shared file `x` to `x` with a mark
    appended (write sets overlap) — the 6 interleavings end in 3 different contents of `x`. -/
abbrev exClash : List Job :=
  let mk := fun (m : String) => (⟨Proc.ofOps [.read "x", .write "x" (fun l => String.join (l.map (fun v => v.getD "")) ++ m)] [],
                                   ["x"], ["x"]⟩ : Job)
  [mk "a", mk "b"]
example : (interleavings [2, 2]).map (fun s => (runSched s (Config.init ⟨[("x", some "0")]⟩ exClash)).fs.read "x") =
    [some "0ab", some "0b", some "0a", some "0b", some "0a", some "0ba"] := by decide

/-- and "nobody reads another's write set" is needed too: a reader of `y` next to a writer of `y`
    (write sets disjoint) observes different values under different interleavings -/
abbrev exRace : List Job :=
  [⟨Proc.ofOps [.read "y"] [], ["y"], []⟩, ⟨Proc.ofOps [.write "y" (fun _ => "new")] [], [], ["y"]⟩]
example : (runSched [0, 1] (Config.init ⟨[("y", some "old")]⟩ exRace)).logs = [[some "old"], []] ∧
    (runSched [1, 0] (Config.init ⟨[("y", some "old")]⟩ exRace)).logs = [[some "new"], []] := by decide

end Pepper.C20
