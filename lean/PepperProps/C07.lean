import PepperProofs.Closure
import PepperProofs.ClosureStaged
/-!
# C07 — `propagate_constraints` computes exactly the parity-labelled connected classes

Model: `PepperModel/Closure.lean` (`propagate`), source `design/constraints.py`.
Specification: `Reach eq wc x p y` — there is a path from `x` to `y` along `eq`/`wc` edges whose number
of `wc` edges has parity `p`.  Under the documented precondition `Pre` (same duplicate-free keys, every
neighbour is a key, both relations symmetric) the function returns without an assertion failure, has
exactly the keys of `eq` as keys, and maps every item to (its even-parity class, its odd-parity class).
The proofs are in `PepperProofs/ClosureClass` (inner `while` loop, fuel sufficiency) and
`PepperProofs/Closure` (outer `for` loop).

Staged use (`design/constraint_load.py : Constraints.propagate` stores the result back as the link
collections, and the store is then extended and propagated again): `propagate_idempotent` and
`propagate_staged`, proofs in `PepperProofs/ClosureStaged`.
-/
namespace Pepper.C07
open Pepper.Closure

/-- Under the documented precondition neither the key assert nor the per-item asserts fire, and for
    every item `x` the stored pair `(E, W)` is exact: `E` is the set of items at even parity distance
    from `x` (`x` included), `W` the set of items at odd parity distance. -/
theorem propagate_exact {eq wc : Adj} (h : Pre eq wc) :
    ∃ r, propagate eq wc = .ok r ∧
      ∀ x ∈ keys eq, ∃ E W, r.get x = some (E, W) ∧
        (∀ y, y ∈ E ↔ Reach eq wc x false y) ∧ (∀ y, y ∈ W ↔ Reach eq wc x true y) := by
  obtain ⟨r, e, i, hx⟩ := propagate_ok h
  refine ⟨r, e, fun x xk => ?_⟩
  have hs := hx x xk
  rw [Res.has_eq] at hs
  obtain ⟨⟨E, W⟩, hg⟩ := Option.isSome_iff_exists.1 hs
  exact ⟨E, W, hg, i.exact x E W hg⟩

/-- No junk entries: every key of the result is one of the items being constrained (so with
    `propagate_exact` the result's key set is exactly `keys eq`). -/
theorem propagate_keys {eq wc : Adj} (h : Pre eq wc) :
    ∃ r, propagate eq wc = .ok r ∧ ∀ x, r.has x = true → x ∈ keys eq := by
  obtain ⟨r, e, i, _⟩ := propagate_ok h
  exact ⟨r, e, i.isKey⟩

/-- The result does not depend on the order of the keys or of the adjacency lists (Python: on dict
    insertion order or set iteration order): two inputs with the same keys and the same neighbour
    *sets* yield, for every item, the same two sets. -/
theorem order_independent {eq wc eq' wc' : Adj} (h : Pre eq wc) (h' : Pre eq' wc')
    (hk : ∀ x, x ∈ keys eq ↔ x ∈ keys eq')
    (he : ∀ x y, y ∈ nb eq x ↔ y ∈ nb eq' x) (hw : ∀ x y, y ∈ nb wc x ↔ y ∈ nb wc' x) :
    ∃ r r', propagate eq wc = .ok r ∧ propagate eq' wc' = .ok r' ∧
      ∀ x ∈ keys eq, ∃ E W E' W', r.get x = some (E, W) ∧ r'.get x = some (E', W') ∧
        (∀ y, y ∈ E ↔ y ∈ E') ∧ (∀ y, y ∈ W ↔ y ∈ W') := by
  obtain ⟨r, e, hr⟩ := propagate_exact h
  obtain ⟨r', e', hr'⟩ := propagate_exact h'
  refine ⟨r, r', e, e', fun x xk => ?_⟩
  obtain ⟨E, W, g, hE, hW⟩ := hr x xk
  obtain ⟨E', W', g', hE', hW'⟩ := hr' x ((hk x).1 xk)
  have he' : ∀ x y, y ∈ nb eq' x ↔ y ∈ nb eq x := fun x y => (he x y).symm
  have hw' : ∀ x y, y ∈ nb wc' x ↔ y ∈ nb wc x := fun x y => (hw x y).symm
  refine ⟨E, W, E', W', g, g', fun y => ?_, fun y => ?_⟩
  · rw [hE, hE']; exact ⟨Reach.congr he hw, Reach.congr he' hw'⟩
  · rw [hW, hW']; exact ⟨Reach.congr he hw, Reach.congr he' hw'⟩

/-- `Constraints.propagate()` twice in a row is sound.  Read the result `r` of a successful call back
    as link lists (`r.eqAdj`: every item ↦ all its equals, itself included; `r.wcAdj`: every item ↦ all
    its complements).  These satisfy the documented precondition again, the second call succeeds,
    has no keys but the items, and maps every item to the same two classes (as sets) as the first. -/
theorem propagate_idempotent {eq wc : Adj} {r : Res} (h : Pre eq wc) (e : propagate eq wc = .ok r) :
    Pre r.eqAdj r.wcAdj ∧
    ∃ r', propagate r.eqAdj r.wcAdj = .ok r' ∧
      (∀ x, r'.has x = true → x ∈ keys eq) ∧
      ∀ x ∈ keys eq, ∃ E' W', r'.get x = some (E', W') ∧
        (∀ y, y ∈ E' ↔ Reach eq wc x false y) ∧ (∀ y, y ∈ W' ↔ Reach eq wc x true y) := by
  exact Pepper.Closure.propagate_idempotent h e

/-- Staged use of the store is sound.  After a successful propagation the result `r` is kept as the
    basis, fresh items are added (`eq2`/`wc2`: keys disjoint from the old ones, documented
    precondition among themselves, hence linked only among themselves) and the whole is propagated
    again.  Then the extended store satisfies the documented precondition, the second call succeeds,
    its keys are exactly the old and the fresh items, and every item is mapped to exactly its
    even-parity / odd-parity class in the combined *original* basis `(eq ++ eq2, wc ++ wc2)` — which
    for an old item are its classes in `(eq, wc)` and for a fresh item its classes in `(eq2, wc2)`.
    Nothing is assumed about `r` except that it is what the first call returned. -/
theorem propagate_staged {eq wc eq2 wc2 : Adj} {r : Res} (h : Pre eq wc)
    (e : propagate eq wc = .ok r) (h2 : Pre eq2 wc2) (hd : ∀ x, x ∈ keys eq → x ∉ keys eq2) :
    Pre (r.eqAdj ++ eq2) (r.wcAdj ++ wc2) ∧
    ∃ r', propagate (r.eqAdj ++ eq2) (r.wcAdj ++ wc2) = .ok r' ∧
      (∀ x, r'.has x = true → x ∈ keys eq ++ keys eq2) ∧
      (∀ x ∈ keys eq ++ keys eq2, ∃ E W, r'.get x = some (E, W) ∧
        (∀ y, y ∈ E ↔ Reach (eq ++ eq2) (wc ++ wc2) x false y) ∧
        (∀ y, y ∈ W ↔ Reach (eq ++ eq2) (wc ++ wc2) x true y)) ∧
      (∀ x ∈ keys eq, ∃ E W, r'.get x = some (E, W) ∧
        (∀ y, y ∈ E ↔ Reach eq wc x false y) ∧ (∀ y, y ∈ W ↔ Reach eq wc x true y)) ∧
      (∀ x ∈ keys eq2, ∃ E W, r'.get x = some (E, W) ∧
        (∀ y, y ∈ E ↔ Reach eq2 wc2 x false y) ∧ (∀ y, y ∈ W ↔ Reach eq2 wc2 x true y)) := by
  exact Pepper.Closure.propagate_staged h e h2 hd

/-- The stored classes are coherent (what `constraint_load` relies on when it reads ONE member's record
    for the whole class): the record of every member `y` of `x`'s even class is `x`'s record (as sets),
    and the record of every member of `x`'s odd class is `x`'s record with the two sets swapped. -/
theorem result_classes_coherent {eq wc : Adj} (h : Pre eq wc) :
    ∃ r, propagate eq wc = .ok r ∧
      ∀ x ∈ keys eq, ∀ Ex Wx, r.get x = some (Ex, Wx) →
        (∀ y ∈ Ex, ∃ Ey Wy, r.get y = some (Ey, Wy) ∧
            (∀ z, z ∈ Ey ↔ z ∈ Ex) ∧ (∀ z, z ∈ Wy ↔ z ∈ Wx)) ∧
        (∀ y ∈ Wx, ∃ Ey Wy, r.get y = some (Ey, Wy) ∧
            (∀ z, z ∈ Ey ↔ z ∈ Wx) ∧ (∀ z, z ∈ Wy ↔ z ∈ Ex)) := by
  obtain ⟨r, e, hr⟩ := propagate_exact h
  refine ⟨r, e, fun x xk Ex Wx g => ?_⟩
  obtain ⟨E, W, g', hE, hW⟩ := hr x xk
  rw [g] at g'
  obtain ⟨rfl, rfl⟩ : Ex = E ∧ Wx = W := by
    have := Option.some.inj g'; exact ⟨congrArg Prod.fst this, congrArg Prod.snd this⟩
  constructor
  · intro y hy
    have ry : Reach eq wc x false y := (hE y).1 hy
    obtain ⟨Ey, Wy, gy, hEy, hWy⟩ := hr y (ry.mem_keys h.keyClosed xk)
    refine ⟨Ey, Wy, gy, fun z => ?_, fun z => ?_⟩
    · rw [hEy, hE, Reach.shift h.eqSymm h.wcSymm ry false z]; simp
    · rw [hWy, hW, Reach.shift h.eqSymm h.wcSymm ry true z]; simp
  · intro y hy
    have ry : Reach eq wc x true y := (hW y).1 hy
    obtain ⟨Ey, Wy, gy, hEy, hWy⟩ := hr y (ry.mem_keys h.keyClosed xk)
    refine ⟨Ey, Wy, gy, fun z => ?_, fun z => ?_⟩
    · rw [hEy, hW, Reach.shift h.eqSymm h.wcSymm ry false z]; simp
    · rw [hWy, hE, Reach.shift h.eqSymm h.wcSymm ry true z]; simp

/-- The result is a symmetric relation: `y` is among `x`'s equals iff `x` is among `y`'s, and the same
    for complements. -/
theorem result_symmetric {eq wc : Adj} (h : Pre eq wc) :
    ∃ r, propagate eq wc = .ok r ∧
      ∀ x ∈ keys eq, ∀ y ∈ keys eq, ∀ Ex Wx Ey Wy,
        r.get x = some (Ex, Wx) → r.get y = some (Ey, Wy) →
        (y ∈ Ex ↔ x ∈ Ey) ∧ (y ∈ Wx ↔ x ∈ Wy) := by
  obtain ⟨r, e, hr⟩ := propagate_exact h
  refine ⟨r, e, fun x xk y yk Ex Wx Ey Wy gx gy => ?_⟩
  obtain ⟨E, W, g', hE, hW⟩ := hr x xk
  obtain ⟨E', W', g'', hE', hW'⟩ := hr y yk
  rw [gx] at g'; rw [gy] at g''
  obtain ⟨rfl, rfl⟩ : Ex = E ∧ Wx = W := by
    have := Option.some.inj g'; exact ⟨congrArg Prod.fst this, congrArg Prod.snd this⟩
  obtain ⟨rfl, rfl⟩ : Ey = E' ∧ Wy = W' := by
    have := Option.some.inj g''; exact ⟨congrArg Prod.fst this, congrArg Prod.snd this⟩
  refine ⟨?_, ?_⟩
  · rw [hE, hE']; exact ⟨Reach.symm h.eqSymm h.wcSymm, Reach.symm h.eqSymm h.wcSymm⟩
  · rw [hW, hW']; exact ⟨Reach.symm h.eqSymm h.wcSymm, Reach.symm h.eqSymm h.wcSymm⟩

/-- A satisfiable item set is one without an odd cycle: `x` lies in its own complement class iff some
    item is both an equal and a complement of `x` (then no assignment of bases can satisfy the links —
    the condition C15 reports). -/
theorem self_complementary_iff_overlap {eq wc : Adj} (h : Pre eq wc) :
    ∃ r, propagate eq wc = .ok r ∧
      ∀ x ∈ keys eq, ∀ Ex Wx, r.get x = some (Ex, Wx) →
        (x ∈ Wx ↔ ∃ y, y ∈ Ex ∧ y ∈ Wx) := by
  obtain ⟨r, e, hr⟩ := propagate_exact h
  refine ⟨r, e, fun x xk Ex Wx g => ?_⟩
  obtain ⟨E, W, g', hE, hW⟩ := hr x xk
  rw [g] at g'
  obtain ⟨rfl, rfl⟩ : Ex = E ∧ Wx = W := by
    have := Option.some.inj g'; exact ⟨congrArg Prod.fst this, congrArg Prod.snd this⟩
  constructor
  · intro hx; exact ⟨x, (hE x).2 Reach.refl, hx⟩
  · rintro ⟨y, yE, yW⟩
    have a : Reach eq wc x false y := (hE y).1 yE
    have b : Reach eq wc x true y := (hW y).1 yW
    have := a.trans (b.symm h.eqSymm h.wcSymm)
    exact (hW x).2 (by simpa using this)

/-- The executable precondition check used by the driver and the harness generators is sound. -/
theorem pre_of_preB {eq wc : Adj} (h : preB eq wc = true) : Pre eq wc := Pre.of_preB h

/-- The naive saturation oracle (a different algorithm, used by the failing-input search) only ever
    reports parity-reachable items; no precondition needed. -/
theorem naive_sound (eq wc : Adj) (x y : Item) :
    (y ∈ (naiveClass eq wc x).1 → Reach eq wc x false y) ∧
    (y ∈ (naiveClass eq wc x).2 → Reach eq wc x true y) := naiveClass_sound eq wc x y

/-! ### non-vacuity

One input with an odd cycle (`0 ~ 1 ~ 2 ~ 0`: each of the three is both equal and complementary to
each, itself included), an isolated item (`3`), and a mixed chain (`4 = 5 ~ 6 = 7`). -/

/-- the example input: `eq` basis -/
abbrev exEq : Adj := [(0, []), (1, []), (2, []), (3, []), (4, [5]), (5, [4]), (6, [7]), (7, [6])]
/-- the example input: `wc` basis -/
abbrev exWc : Adj := [(0, [1, 2]), (1, [0, 2]), (2, [1, 0]), (3, []), (4, []), (5, [6]), (6, [5]), (7, [])]

/-- the precondition is satisfiable by a graph with all three features -/
example : Pre exEq exWc := pre_of_preB (by decide)

/-- and the model evaluates on it to the expected classes -/
example : propagate exEq exWc = .ok
    [(2, [0, 2, 1], [2, 1, 0]), (1, [0, 2, 1], [2, 1, 0]), (0, [0, 2, 1], [2, 1, 0]),
     (3, [3], []),
     (4, [4, 5], [7, 6]), (5, [4, 5], [7, 6]), (7, [7, 6], [4, 5]), (6, [7, 6], [4, 5])] := by rfl

/-- the specification is not trivially true or false on it: `4` reaches `7` with odd parity only via
    the chain, and the odd cycle makes `0` its own complement -/
example : Reach exEq exWc 4 true 7 ∧ Reach exEq exWc 0 true 0 := by
  refine ⟨?_, ?_⟩
  · have a : Reach exEq exWc 4 false 5 := Reach.eqStep Reach.refl (by decide)
    have b : Reach exEq exWc 4 true 6 := Reach.wcStep a (by decide)
    exact Reach.eqStep b (by decide)
  · have a : Reach exEq exWc 0 true 1 := Reach.wcStep Reach.refl (by decide)
    have b : Reach exEq exWc 0 false 2 := Reach.wcStep a (by decide)
    exact Reach.wcStep b (by decide)

/-- without the symmetry precondition the Python's own assert fires (the precondition is needed):
    `1 ∈ eq[0]` but `0 ∉ eq[1]`; resolving `1` first and then `0` finds `1` already resolved -/
example : propagate [(1, []), (0, [1])] [(1, []), (0, [])] = .error .assertion := by rfl

/-! ### non-vacuity of the staged theorems

The first stage is the example above; the second stage adds two fresh items linked to each other
(`8 ~ 9`) and a fresh isolated item (`10`). -/

/-- the result of the first stage (see the evaluation above) -/
abbrev exRes : Res :=
  [(2, [0, 2, 1], [2, 1, 0]), (1, [0, 2, 1], [2, 1, 0]), (0, [0, 2, 1], [2, 1, 0]),
   (3, [3], []),
   (4, [4, 5], [7, 6]), (5, [4, 5], [7, 6]), (7, [7, 6], [4, 5]), (6, [7, 6], [4, 5])]
/-- second stage: `eq` basis of the fresh items -/
abbrev exEq2 : Adj := [(8, []), (9, []), (10, [])]
/-- second stage: `wc` basis of the fresh items -/
abbrev exWc2 : Adj := [(8, [9]), (9, [8]), (10, [])]

/-- the hypotheses of `propagate_staged` (and of `propagate_idempotent`) are satisfiable -/
example : Pre exEq exWc ∧ propagate exEq exWc = .ok exRes ∧ Pre exEq2 exWc2 ∧
    ∀ x, x ∈ keys exEq → x ∉ keys exEq2 :=
  ⟨pre_of_preB (by decide), by rfl, pre_of_preB (by decide), by decide⟩

/-- propagating the stored result again returns the same classes (as sets; the order differs) -/
example : propagate exRes.eqAdj exRes.wcAdj = .ok
    [(1, [0, 1, 2], [1, 2, 0]), (2, [0, 1, 2], [1, 2, 0]), (0, [0, 1, 2], [1, 2, 0]),
     (3, [3], []),
     (5, [5, 4], [6, 7]), (4, [5, 4], [6, 7]), (6, [6, 7], [5, 4]), (7, [6, 7], [5, 4])] := by rfl

/-- after adding the fresh items the old classes are unchanged and the fresh ones are exact -/
example : propagate (exRes.eqAdj ++ exEq2) (exRes.wcAdj ++ exWc2) = .ok
    [(1, [0, 1, 2], [1, 2, 0]), (2, [0, 1, 2], [1, 2, 0]), (0, [0, 1, 2], [1, 2, 0]),
     (3, [3], []),
     (5, [5, 4], [6, 7]), (4, [5, 4], [6, 7]), (6, [6, 7], [5, 4]), (7, [6, 7], [5, 4]),
     (8, [8], [9]), (9, [9], [8]), (10, [10], [])] := by rfl

end Pepper.C07
