import PepperProofs.ConstraintGenTotalT
/-!
# C15 — over-constrained specifications are reported, not passed on

Model: `PepperModel/ConstraintGen.lean` (`getConstraints` = `Convert.get_constraints`), source
`design/constraint_load.py`.  Specification: `LinkSpec.Satisfiable tbl (Pil.denote spec)` — an assignment of a
base to every domain position with every position inside its template's set, every `equal` entry position-wise
equal and every base pair complementary (`LinkSpec.Sat`).
-/
namespace Pepper.C15
open Pepper Pepper.Pil Pepper.ConstraintGen Pepper.LinkSpec Pepper.Closure

/-- **Abstract core.**  For any equivalence-with-parity `R` (classes with partner classes) and any per-item
    constraint `ok`: a satisfying assignment exists iff no item is its own partner and every class has a base
    that suits all of its members (flipped on the partner side).  Direction ⇐ picks a base per class
    representative and its complement on the partner class — which needs the class to differ from its partner;
    direction ⇒ uses `compl b ≠ b`. -/
theorem core_partition {α : Type} {R : α → Bool → α → Prop} {ok : α → Base → Prop} (E : ParityEquiv R) :
    (∃ a, ASat R ok a) ↔ (∀ x, ¬ R x true x) ∧ ∀ x, ∃ b, ∀ y p, R x p y → ok y (flipB b p) :=
  core E

/-- **Specification side.**  A design is satisfiable iff no domain position is linked to itself with odd
    parity and, for every position, some base is allowed by every template linked to it (complemented at odd
    parity) — for every design and every code table. -/
theorem satisfiable_iff_classes (tbl : CodeTable) (d : Design) :
    Satisfiable tbl d ↔
      (∀ v, ¬ ParityReach d v true v) ∧
      ∀ v, ∃ b, ∀ w p, ParityReach d v p w → okVar tbl d w (flipB b p) :=
  satisfiable_iff tbl d

/-- **Model side, over the seeded graph.**  Once the seeding of `get_constraints` has succeeded (`seeds`,
    `build`: the `init` calls and the links in the Python's order), the call fails with the `ValueError` of
    `propagate_templates` exactly when the seeded link graph is over-constrained: some node is linked to
    itself with odd parity, or some class of linked nodes has no base allowed by all of its templates.
    For every lawful table, both layouts. -/
theorem error_iff_graph_unsat {tbl : CodeTable} (hl : tbl.lawful = true) {mode : Layout} {spec : Spec}
    (ok : SpecCodes tbl spec) {s : Seeds} {c : Cons} (hs : seeds mode spec = .ok s) (hb : build s = .ok c) :
    getConstraintsT tbl mode spec = .error .overconstrained ↔ ¬ GraphSat tbl c := by
  obtain ⟨_, h | h | ⟨a, h⟩⟩ := getConstraintsT_spec hl ok hs hb
  · exact ⟨fun _ => h.2, fun _ => h.1⟩
  · exact ⟨fun e => absurd (h.1.symm.trans e) (by simp), fun n => absurd h.2.1 n⟩
  · exact ⟨fun e => absurd (h.1.symm.trans e) (by simp), fun n => absurd h.2.1 n⟩

/-- After a successful seeding no other exception of the constraint stage is possible: no `KeyError` (every
    intersection of codes has a code: lawful table), none of the `assert`s of `propagate_constraints` /
    `propagate_templates`; the only other failure is `dump` having no position to number. -/
theorem no_other_error {tbl : CodeTable} (hl : tbl.lawful = true) {mode : Layout} {spec : Spec}
    (ok : SpecCodes tbl spec) {s : Seeds} {c : Cons} (hs : seeds mode spec = .ok s) (hb : build s = .ok c) :
    getConstraintsT tbl mode spec ≠ .error .keyError ∧ getConstraintsT tbl mode spec ≠ .error .assertion ∧
    getConstraintsT tbl mode spec ≠ .error .layout := by
  obtain ⟨_, h | h | ⟨a, h⟩⟩ := getConstraintsT_spec hl ok hs hb <;>
    (rw [h.1]; exact ⟨(by simp), (by simp), (by simp)⟩)

/-- **Second sentence of C15, both layouts: a satisfiable specification is never rejected for being
    over-constrained.**  For every document the reader accepts: if a satisfying assignment of `Pil.denote spec`
    exists, then (after the seeding) `get_constraints` does not fail with the `ValueError` of
    `propagate_templates`.  The proof transports the assignment to the seeded graph along the denotation of nodes
    (`denOf`: a layout position stands for the nucleotide of the strand that sits there, `(num, x)` for the `x`-th
    nucleotide of the view numbered `num`): every seeded `eq` link joins nodes whose nucleotides the design forces
    equal, every `wc` link nodes forced complementary (soundness of the seeding, `seedSound`), and every node's
    template allows what the design allows for its nucleotide. -/
theorem satisfiable_not_rejected {mode : Layout} {stmts : List Stmt} {spec : Spec}
    (hload : Pil.load Generated.nupackTable stmts {} = .ok spec) {s : Seeds} {c : Cons}
    (hs : seeds mode spec = .ok s) (hb : build s = .ok c)
    (hsat : Satisfiable Generated.pilTable (Pil.denote spec)) :
    getConstraints mode spec ≠ .error .overconstrained := by
  intro e
  have wf := load_wf hload
  have ok := load_specCodes hload
  exact (error_iff_graph_unsat pilLawful ok hs hb).1 e (graphSat_of_satisfiable wf ok pil_N.2 hs hb hsat)

/-- Every document the reader accepts is well formed (`SpecWF`: names resolve to the objects that were defined,
    lengths and nucleotides of super-sequences and strands are those of their items, structures refer to defined
    strands and carry the bonds of their dot-paren string) and only uses codes of the table. -/
theorem loaded_wellformed {stmts : List Stmt} {spec : Spec}
    (hload : Pil.load Generated.nupackTable stmts {} = .ok spec) :
    SpecWF spec ∧ SpecCodes Generated.pilTable spec := ⟨load_wf hload, load_specCodes hload⟩

/-- **C15: an over-constrained specification is reported, and only an over-constrained one.**  For every document
    the reader accepts and both layouts, once the seeding of `get_constraints` has run (`seeds`, `build`: the `init`
    calls and the links in the Python's order):

      `get_constraints` fails with the `ValueError` of `propagate_templates`
        ⟺  no assignment of bases satisfies the specification
            (every domain position inside its template's set, every `equal` entry position-wise equal, every base
             pair complementary).

    ⇒ (`satisfiable_not_rejected`) transports a satisfying assignment to the seeded graph (soundness of the
    seeding); ⇐ builds, from the classes of the seeded graph, an assignment of the design: every node is connected
    to the canonical node of its domain position with the parity of its `comp` flag (`conn_key`, by induction on
    the order of definition of the super-sequences), every semantic link is realised between canonical nodes
    (`link_realised`), then the abstract core (`core_partition`) picks a base per class and its complement on the
    partner class.

    The hypotheses `hs`/`hb` say that the seeding itself raised nothing.  They are theorems for the strand layout
    (`error_iff_unsat_strand`) and, when every non-empty strand occurs in some structure, for the structure layout
    (`error_iff_unsat_struct`). -/
theorem error_iff_unsat {mode : Layout} {stmts : List Stmt} {spec : Spec}
    (hload : Pil.load Generated.nupackTable stmts {} = .ok spec) {s : Seeds} {c : Cons}
    (hs : seeds mode spec = .ok s) (hb : build s = .ok c) :
    getConstraints mode spec = .error .overconstrained ↔ ¬ Satisfiable Generated.pilTable (Pil.denote spec) := by
  have S : Seeded Generated.pilTable mode spec s c := ⟨load_wf hload, load_specCodes hload, hs, hb⟩
  rw [show getConstraints mode spec = getConstraintsT Generated.pilTable mode spec from rfl,
    error_iff_graph_unsat pilLawful S.ok hs hb]
  constructor
  · intro hg hsat
    exact hg (graphSat_of_satisfiable S.wf S.ok pil_N.2 hs hb hsat)
  · intro hn hg
    exact hn (satisfiable_of_graphSat S hg)

/-- **C15 for the strand layout (the default of `pepper-design-spurious`), without side conditions.**  For every
    document the reader accepts, `get_constraints` in the strand layout fails with the `ValueError` of
    `propagate_templates` exactly when the specification is unsatisfiable; the seeding itself never raises
    (`seeding_total_strand`: no index initialised twice, every link joins initialised indices, every loop body
    returns). -/
theorem error_iff_unsat_strand {stmts : List Stmt} {spec : Spec}
    (hload : Pil.load Generated.nupackTable stmts {} = .ok spec) :
    getConstraints .strand spec = .error .overconstrained ↔ ¬ Satisfiable Generated.pilTable (Pil.denote spec) := by
  obtain ⟨s, c, hs, hb⟩ := seeding_total_strand (load_wf hload)
  exact error_iff_unsat hload hs hb

/-- **C15 for the structure layout**, for documents in which every non-empty strand occurs in some structure
    (`Placed`; otherwise `get_index_strand` adds `None` to an integer): there too the seeding never raises
    (`seeding_total_struct`) and the call fails with the `ValueError` of `propagate_templates` exactly when the
    specification is unsatisfiable. -/
theorem error_iff_unsat_struct {stmts : List Stmt} {spec : Spec}
    (hload : Pil.load Generated.nupackTable stmts {} = .ok spec) (hp : Placed spec) :
    getConstraints .struct spec = .error .overconstrained ↔ ¬ Satisfiable Generated.pilTable (Pil.denote spec) := by
  obtain ⟨s, c, hs, hb⟩ := seeding_total_struct (load_wf hload) hp
  exact error_iff_unsat hload hs hb

/-- In the strand layout the only outcomes are: arrays, the over-constrained error, or (a document without any
    nucleotide on a strand) `dump` having nothing to number. -/
theorem strand_outcomes {stmts : List Stmt} {spec : Spec}
    (hload : Pil.load Generated.nupackTable stmts {} = .ok spec) :
    (∃ a, getConstraints .strand spec = .ok a) ∨ getConstraints .strand spec = .error .overconstrained ∨
    getConstraints .strand spec = .error .noPositions := by
  obtain ⟨s, c, hs, hb⟩ := seeding_total_strand (load_wf hload)
  obtain ⟨_, h | h | ⟨a, h⟩⟩ := getConstraintsT_spec pilLawful (load_specCodes hload) hs hb
  · exact Or.inr (Or.inl h.1)
  · exact Or.inr (Or.inr h.1)
  · exact Or.inl ⟨a, h.1⟩

/-- Corollary: when arrays are returned, the specification is satisfiable (nothing over-constrained is passed on). -/
theorem arrays_imply_satisfiable {mode : Layout} {stmts : List Stmt} {spec : Spec}
    (hload : Pil.load Generated.nupackTable stmts {} = .ok spec) {s : Seeds} {c : Cons}
    (hs : seeds mode spec = .ok s) (hb : build s = .ok c) {a : Arrays} (ha : getConstraints mode spec = .ok a) :
    Satisfiable Generated.pilTable (Pil.denote spec) := by
  cases Classical.em (Satisfiable Generated.pilTable (Pil.denote spec)) with
  | inl h => exact h
  | inr h =>
    have := (error_iff_unsat hload hs hb).2 h
    rw [ha] at this; cases this

/-! ### non-vacuity: concrete small documents -/

/-- `get_constraints` on a statement list as the reader hands it over -/
def run (mode : Layout) (l : List Stmt) : Except ConstraintGen.Err Arrays :=
  match Pil.load Generated.nupackTable l {} with
  | .ok s => getConstraints mode s
  | .error _ => .error .assertion

/-- the hypotheses "the seeding succeeds" of the theorems hold on a document -/
def seeded (mode : Layout) (l : List Stmt) : Bool :=
  match Pil.load Generated.nupackTable l {} with
  | .ok s => (match seeds mode s with
    | .ok sd => (match build sd with | .ok _ => true | .error _ => false)
    | .error _ => false)
  | .error _ => false

/-- a duplex: `A = a`, `B = a*`, fully paired; the `S` of the template shows up complemented (`S`) on the other strand -/
def duplex : List Stmt := [
  .seq "a" "NNS".toList, .strand "A" false ["a"], .strand "B" false ["a*"],
  .struct "D" (some "1nt") ["A", "B"] "(((+)))".toList ]

/-- a hairpin pairing a domain of odd length with itself: the middle position is its own partner -/
def hairpin : List Stmt := [
  .seq "a" "NNNNN".toList, .strand "A" false ["a", "a"], .struct "H" (some "1nt") ["A"] "((((()))))".toList ]

/-- `D` (AGT) meets `V` (ACG) through an `equal` line: the common part is `R` (AG) -/
def dv : List Stmt := [
  .seq "a" "DDD".toList, .seq "b" "VVV".toList, .strand "A" false ["a", "b"],
  .struct "S" none ["A"] "......".toList, .equal ["a", "b"] ]

def okIs (r : Except ConstraintGen.Err Arrays) (a : Arrays) : Bool :=
  match r with | .ok b => b == a | .error _ => false

def errIs (r : Except ConstraintGen.Err Arrays) (e : ConstraintGen.Err) : Bool :=
  match r with | .ok _ => false | .error e' => e' == e

example : seeded .strand hairpin = true ∧ seeded .strand duplex = true ∧ seeded .strand dv = true := by decide +kernel

/-- the self-pairing hairpin is reported in both layouts -/
example : errIs (run .strand hairpin) .overconstrained = true ∧ errIs (run .struct hairpin) .overconstrained = true := by
  decide +kernel

/-- and the specification side agrees: it is unsatisfiable, the duplex and the `D`/`V` meeting are satisfiable -/
example : (match Pil.load Generated.nupackTable hairpin {} with
      | .ok s => satisfiableB Generated.pilTable (Pil.denote s) | .error _ => true) = false ∧
    (match Pil.load Generated.nupackTable duplex {} with
      | .ok s => satisfiableB Generated.pilTable (Pil.denote s) | .error _ => false) = true ∧
    (match Pil.load Generated.nupackTable dv {} with
      | .ok s => satisfiableB Generated.pilTable (Pil.denote s) | .error _ => false) = true := by decide +kernel

/-- a satisfiable meeting of `D` and `V` is not an error: the class gets the code `R` -/
example : okIs (run .strand dv)
    ([some 0, some 1, some 2, some 0, some 1, some 2], [none, none, none, none, none, none],
     [some 'R', some 'R', some 'R', some 'R', some 'R', some 'R']) = true := by decide +kernel

/-- a direct template conflict over one `equal` link is reported -/
example : errIs (run .strand [.seq "a" "A".toList, .seq "b" "C".toList, .strand "X" false ["a", "b"],
    .struct "S" none ["X"] "..".toList, .equal ["a", "b"]]) .overconstrained = true := by decide +kernel

end Pepper.C15
