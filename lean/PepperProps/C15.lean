import PepperProofs.ConstraintGenSeeds
/-!
# C15 — over-constrained specifications are reported, not passed on

Model: `PepperModel/ConstraintGen.lean` (`getConstraints` = `Convert.get_constraints`), source
`design/constraint_load.py`.  Specification: `LinkSpec.Satisfiable tbl (Pil.denote spec)` — an assignment of a
base to every domain position with every position inside its template's set, every `equal` entry position-wise
equal and every base pair complementary (`LinkSpec.Sat`).
-/
namespace Pepper.C15
open Pepper Pepper.Pil Pepper.ConstraintGen Pepper.LinkSpec Pepper.Closure

/-- **Abstract core.**  For any equivalence-with-parity `R` (classes with partner classes) and any per-item
    constraint `ok`: a satisfying assignment exists iff no item is its own partner and every class has a base
    that suits all of its members (flipped on the partner side).  Direction ⇐ picks a base per class
    representative and its complement on the partner class — which needs the class to differ from its partner;
    direction ⇒ uses `compl b ≠ b`. -/
theorem core_partition {α : Type} {R : α → Bool → α → Prop} {ok : α → Base → Prop} (E : ParityEquiv R) :
    (∃ a, ASat R ok a) ↔ (∀ x, ¬ R x true x) ∧ ∀ x, ∃ b, ∀ y p, R x p y → ok y (flipB b p) :=
  core E

/-- **Specification side.**  A design is satisfiable iff no domain position is linked to itself with odd
    parity and, for every position, some base is allowed by every template linked to it (complemented at odd
    parity) — for every design and every code table. -/
theorem satisfiable_iff_classes (tbl : CodeTable) (d : Design) :
    Satisfiable tbl d ↔
      (∀ v, ¬ ParityReach d v true v) ∧
      ∀ v, ∃ b, ∀ w p, ParityReach d v p w → okVar tbl d w (flipB b p) :=
  satisfiable_iff tbl d

/-- **Model side, over the seeded graph.**  Once the seeding of `get_constraints` has succeeded (`seeds`,
    `build`: the `init` calls and the links in the Python's order), the call fails with the `ValueError` of
    `propagate_templates` exactly when the seeded link graph is over-constrained: some node is linked to
    itself with odd parity, or some class of linked nodes has no base allowed by all of its templates.
    For every lawful table, both layouts. -/
theorem error_iff_graph_unsat {tbl : CodeTable} (hl : tbl.lawful = true) {mode : Layout} {spec : Spec}
    (ok : SpecCodes tbl spec) {s : Seeds} {c : Cons} (hs : seeds mode spec = .ok s) (hb : build s = .ok c) :
    getConstraintsT tbl mode spec = .error .overconstrained ↔ ¬ GraphSat tbl c := by
  obtain ⟨_, h | h | ⟨a, h⟩⟩ := getConstraintsT_spec hl ok hs hb
  · exact ⟨fun _ => h.2, fun _ => h.1⟩
  · exact ⟨fun e => absurd (h.1.symm.trans e) (by simp), fun n => absurd h.2.1 n⟩
  · exact ⟨fun e => absurd (h.1.symm.trans e) (by simp), fun n => absurd h.2.1 n⟩

/-- After a successful seeding no other exception of the constraint stage is possible: no `KeyError` (every
    intersection of codes has a code: lawful table), none of the `assert`s of `propagate_constraints` /
    `propagate_templates`; the only other failure is `dump` having no position to number. -/
theorem no_other_error {tbl : CodeTable} (hl : tbl.lawful = true) {mode : Layout} {spec : Spec}
    (ok : SpecCodes tbl spec) {s : Seeds} {c : Cons} (hs : seeds mode spec = .ok s) (hb : build s = .ok c) :
    getConstraintsT tbl mode spec ≠ .error .keyError ∧ getConstraintsT tbl mode spec ≠ .error .assertion ∧
    getConstraintsT tbl mode spec ≠ .error .layout := by
  obtain ⟨_, h | h | ⟨a, h⟩⟩ := getConstraintsT_spec hl ok hs hb <;>
    (rw [h.1]; exact ⟨(by simp), (by simp), (by simp)⟩)

end Pepper.C15
