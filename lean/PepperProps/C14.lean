import PepperProofs.DenoteZero
/-!
# C14 — zero-length domains are inert

Specification side (`PepperModel/Denote.lean`: what a source denotes) and model side (`PepperModel/Comp.lean`,
`Emit.lean`: what the compiler emits).  The refinement theorem C01 ties the two together; the pipeline part of
the property ("… the designer front-end or the finisher can process") is validated on the real tool chain by
`harness/props/c14.py`, not proved.

(a) `denoteRegion_insert_zero`: inserting a reference `z` / `z*` to a name bound to no nucleotides at any
    position `i` of any item list, in any environment, leaves the outcome of `denoteRegion` unchanged: same
    error, or the same new anonymous domains and counter and the same segmentation with exactly one empty
    segment inserted after the segments of the first `i` items (`insSeg`); hence the same nucleotides
    (`denoteRegion_insert_zero_nucs`).  `denoteRegion_insert_zero_quoted`: inserting a zero-length *quoted* region
    consumes one anonymous name; the nucleotides and the non-empty new domains (what `withNewDomains` keeps)
    are unchanged up to the renumbering of the later anonymous names, the counter is one higher.
(b) `stmt_insert_zero`: for `sequence` / `strand` statements the contribution to `Out` and the counter are
    unchanged (named reference); `stmt_insert_zero_quoted` (quoted, up to renumbering);
    `zero_definition_adds_nothing`: defining a zero-length atomic sequence adds nothing to `Out`, wherever the
    statement stands; `zero_definition_last`: as the last definition it changes nothing a component denotes.
(c) `emitted_has_no_zero_length`: the emitted statements of a loaded component contain no `sequence` with an
    empty template, no declaration of a zero-length object, and every item of an emitted `sup-sequence` /
    `strand` statement is (a view of) a table entry of non-zero length, which is itself declared.
Top level: `inert` (named reference: `denoteComp src' = denoteComp src`) and `inert_quoted` (quoted region: the
two denotations are related by `CompRel (shiftFull pfx n1 1) 1` — same error, or `Out` and ports with
`pfx ++ _Anon m ↦ pfx ++ _Anon (m+1)` from the insertion point `n1` on and the counter one higher; `shiftFull_spec`
says what that renaming is; `inert_quoted_general` is the same for any renaming with the needed properties).
Both need that no *later* structure statement is domain-level: a domain-level structure counts the segments of
its strands, its notation has to change with them (`domain_level_counterexample`).

Definitions (`blocks`, `insSeg`, `InsStmt`, `InsertZero`, `rnOut`, `CompRel`, `SeqsRel`, `RenumP`, `fixedNucs`,
`blkCount`, `flat3`, `nz3`, `rn3`, `ExRel`, `Inv`) are in `PepperProofs/DenoteZero.lean`.
-/
namespace Pepper.C14
open Pepper Pepper.Comp Pepper.Constraint Pepper.Denote Pepper.DenoteZero Pepper.CompShift

/-- (a) For every prefix, environment, item list `items`, position `i`, star flag and declared length: if `z` is
    bound to no nucleotides (a zero-length sequence, atomic or super), then
    `denoteRegion` of `items` with `z` / `z*` inserted at position `i` is `denoteRegion` of `items` with one
    empty segment inserted at position `blkCount env (items.take i)` (the number of segments the first `i`
    items contribute) — same error otherwise; new anonymous domains and counter are untouched. -/
theorem denoteRegion_insert_zero (pfx : String) (env : Env) (items : List SrcItem) (i : Nat) (z : String)
    (star : Bool) (length : Option Nat) {b : Denote.Bind} (hz : env.seqs.lookup z = some b) (hb : b.nucs = []) :
    denoteRegion pfx env (items.take i ++ [.ref z star] ++ items.drop i) length =
      (denoteRegion pfx env items length).map
        (fun r => (insertAt r.1 (blkCount env (items.take i)) [], r.2.1, r.2.2)) :=
  denoteRegion_insert_ref pfx env items i z star length hz hb

/-- (a) hence the flattened nucleotides, the new domains and the counter are literally the same -/
theorem denoteRegion_insert_zero_nucs (pfx : String) (env : Env) (items : List SrcItem) (i : Nat) (z : String)
    (star : Bool) (length : Option Nat) {b : Denote.Bind} (hz : env.seqs.lookup z = some b) (hb : b.nucs = []) :
    (denoteRegion pfx env (items.take i ++ [.ref z star] ++ items.drop i) length).map
        (fun r => (r.1.flatten, r.2.1, r.2.2)) =
      (denoteRegion pfx env items length).map (fun r => (r.1.flatten, r.2.1, r.2.2)) := by
  rw [denoteRegion_insert_zero pfx env items i z star length hz hb]
  cases denoteRegion pfx env items length with
  | error e => rfl
  | ok r => simp [Except.map, insertAt_flatten_nil]

/-- (a) Quoted region.  If `text` resolves to length 0, inserting `"text"` at position `i` gives: the same error,
    or the same nucleotides, the same new domains once the zero-length ones are dropped, and the counter one
    higher — all up to the renaming `ρ` of the anonymous names created after the insertion point.  `ρ` is any
    renaming that fixes what the environment binds, fixes `_Anon m` for `m` below the counter at the insertion
    point `n1 = env.anon + fixedNucs (items.take i)` and maps `_Anon m ↦ _Anon (m+1)` for `m ≥ n1`. -/
theorem denoteRegion_insert_zero_quoted (pfx : String) (env : Env) (items : List SrcItem) (i : Nat)
    (text : List Char) (length : Option Nat) (hq : resolve (parseQuoted text) none = .ok (0, []))
    {ρ : String → String} (hs : SeqsRel ρ env.seqs env.seqs)
    (hlt : ∀ m, m < env.anon + fixedNucs (items.take i) → ρ (pfx ++ "_Anon" ++ toString m) = pfx ++ "_Anon" ++ toString m)
    (hr : ∀ m, env.anon + fixedNucs (items.take i) ≤ m →
      ρ (pfx ++ "_Anon" ++ toString m) = pfx ++ "_Anon" ++ toString (m + 1)) :
    (denoteRegion pfx env (items.take i ++ [.nuc text] ++ items.drop i) length).map
        (fun r => (r.1.flatten, r.2.1.filter (fun d => d.2.length != 0), r.2.2)) =
      (denoteRegion pfx env items length).map
        (fun r => (rnSeg ρ r.1.flatten, (r.2.1.map (fun d => (ρ d.1, d.2))).filter (fun d => d.2.length != 0), r.2.2 + 1)) :=
  denoteRegion_insert_quoted pfx env items i text length hq hs hlt hr

/-- (b) Statement level, named reference: for a `sequence` (super-sequence) or `strand` statement `st` and the
    statement `st'` with `z` / `z*` inserted at position `i` (`InsStmt`), in any environment binding `z` to no
    nucleotides and for any `Out` so far: same error, or the same `Out` and the same counter. -/
theorem stmt_insert_zero (pfx : String) (env : Env) (o : Out) {i : Nat} {z : String} {star : Bool} {st st' : Stmt}
    (hins : InsStmt i (.ref z star) st st') {b : Denote.Bind} (hz : env.seqs.lookup z = some b) (hb : b.nucs = []) :
    (denoteStmt pfx env o st').map (fun p => (p.2, p.1.anon)) = (denoteStmt pfx env o st).map (fun p => (p.2, p.1.anon)) :=
  stmt_insert_ref_out pfx env o hins hz hb

/-- (b) and the environments after the two statements are related by `EnvRel id 0`: the same names bound to the
    same nucleotides (only the segmentation of the defined name differs) -/
theorem stmt_insert_zero_env (pfx : String) (env : Env) (o : Out) {i : Nat} {z : String} {star : Bool} {st st' : Stmt}
    (hins : InsStmt i (.ref z star) st st') {b : Denote.Bind} (hz : env.seqs.lookup z = some b) (hb : b.nucs = []) :
    ExRel (fun p q => EnvRel id 0 p.1 q.1 ∧ q.2 = p.2) (denoteStmt pfx env o st) (denoteStmt pfx env o st') := by
  have h := stmt_ref_rel pfx env o hins hz hb
  cases h1 : denoteStmt pfx env o st with
  | error e =>
    rw [h1] at h
    cases h2 : denoteStmt pfx env o st' with
    | error e' => rw [h2] at h; simpa [ExRel] using h
    | ok q => rw [h2] at h; simp [ExRel] at h
  | ok p =>
    rw [h1] at h
    cases h2 : denoteStmt pfx env o st' with
    | error e' => rw [h2] at h; simp [ExRel] at h
    | ok q =>
      rw [h2] at h
      simp only [ExRel, StRel, rnOut_id] at h ⊢
      exact h.1

/-- (b) Statement level, quoted region: same error, or environment and `Out` related by the renaming `ρ` with the
    counter one higher (`StRel ρ 1`).  Hypotheses on `ρ`: it fixes what `env` binds and what `o` holds, the full
    name of the sequence the statement defines, `_Anon m` below the insertion point `n1`, and renumbers from
    `n1` on. -/
theorem stmt_insert_zero_quoted (pfx : String) (env : Env) (o : Out) {i : Nat} {text : List Char} {st st' : Stmt}
    (hins : InsStmt i (.nuc text) st st') (hq : resolve (parseQuoted text) none = .ok (0, []))
    {ρ : String → String} {n1 : Nat}
    (hs : SeqsRel ρ env.seqs env.seqs) (hstr : StrandsRel ρ env.strands env.strands) (ho : rnOut ρ o = o)
    (hfix : stmtOk ρ pfx st)
    (hn1 : ∀ name items len, (st = .seq name items len ∨ ∃ d, st = .strand d name items len) →
      n1 = env.anon + fixedNucs (items.take i))
    (hlt : ∀ m, m < n1 → ρ (pfx ++ "_Anon" ++ toString m) = pfx ++ "_Anon" ++ toString m)
    (hr : RenumP ρ pfx n1 1) :
    ExRel (fun p q => StRel ρ 1 p q ∧ n1 ≤ p.1.anon) (denoteStmt pfx env o st) (denoteStmt pfx env o st') :=
  stmt_quoted_rel pfx env o hins hq hs hstr ho hfix hn1 hlt hr

/-- (b) Defining a zero-length atomic sequence (`sequence z = "0N"`, or any text / declared length that resolves
    to length 0) only binds the name: `Out` and the counter are returned unchanged — in any environment, hence
    at any position of the statement list including the last. -/
theorem zero_definition_adds_nothing (pfx : String) (env : Env) (o : Out) (z : String) (text : List Char)
    (len : Option Nat) {c : List Char} (hq : resolve (parseQuoted text) len = .ok (0, c))
    (hnew : env.seqs.lookup z = none) :
    denoteStmt pfx env o (.seq z [.nuc text] len) =
      .ok ({ env with seqs := env.seqs ++ [(z, ⟨[], [[]], false⟩)] }, o) :=
  denoteStmt_zero_atom pfx env o z text len hq hnew

/-- (b) As the last definition of a component (new name, not a port) it changes nothing the component denotes. -/
theorem zero_definition_last (src : Src) (pfx : String) (a : Nat) (z : String) (text : List Char) (len : Option Nat)
    {c : List Char} (hq : resolve (parseQuoted text) len = .ok (0, c))
    (hnew : ∀ env o, denoteStmts pfx src.stmts { anon := a } {} = .ok (env, o) → env.seqs.lookup z = none)
    (hport : ∀ p ∈ src.inputs ++ src.outputs, p.seq ≠ z) :
    denoteComp { src with stmts := src.stmts ++ [.seq z [.nuc text] len] } pfx a = denoteComp src pfx a :=
  DenoteZero.zero_definition_last src pfx a z text len hq hnew hport

/-- (c) Model side.  For every successfully loaded component whose sequence names are not of the reserved form:
    1. no emitted `sequence` statement has an empty template;
    2. no table entry of length zero (atomic or super-sequence) is declared by any emitted `sequence` /
       `sup-sequence` statement, and every entry of non-zero length is;
    3. every item name of an emitted `sup-sequence` or `strand` statement is `pfx ++ e.name` or `pfx ++ e.name ++ "*"`
       for a table entry `e` of non-zero length (so, by 2, a declared one).
    Nothing of length zero reaches the designer front-end (whose `Convert.output` divides by the length). -/
theorem emitted_has_no_zero_length {src : Src} (hu : UserNamesOk src) {n : Nat} {pfx : String} {a : Nat}
    {st : St} {a' : Nat} (h : Comp.load src n pfx a = .ok (st, a')) :
    (∀ name tmpl, Pil.Stmt.seq name tmpl ∈ Emit.compStmts st → tmpl ≠ []) ∧
    (∀ e ∈ st.seqs, e.len = 0 → st.pfx ++ e.name ∉ seqDeclNames (Emit.compStmts st)) ∧
    (∀ e ∈ st.seqs, e.len ≠ 0 → st.pfx ++ e.name ∈ seqDeclNames (Emit.compStmts st)) ∧
    (∀ name items, Pil.Stmt.sup name items ∈ Emit.compStmts st → ∀ raw ∈ items,
      ∃ e ∈ st.seqs, e.len ≠ 0 ∧ (raw = st.pfx ++ e.name ∨ raw = st.pfx ++ e.name ++ "*")) ∧
    (∀ name d items, Pil.Stmt.strand name d items ∈ Emit.compStmts st → ∀ raw ∈ items,
      ∃ e ∈ st.seqs, e.len ≠ 0 ∧ (raw = st.pfx ++ e.name ∨ raw = st.pfx ++ e.name ++ "*")) :=
  compStmts_no_zero (load_inv hu h) (load_namesNodup h)

/-- **Inert, named reference.**  `src'` is `src` with a reference `z` / `z*` inserted at position `i` of the item
    list of statement number `t`, a super-sequence or strand statement (`InsertZero`); `z` is bound to no
    nucleotides when statement `t` is reached (`hz`); no later structure statement is domain-level.  Then
    `denoteComp src' = denoteComp src`: it fails iff the other does, with the same error, and otherwise every
    field of `Out` (domains, atomic and super-sequences, strands, structures, kinetics), the ports and the
    anonymous counter are identical. -/
theorem inert (pfx : String) (a : Nat) (src src' : Src) (t i : Nat) (z : String) (star : Bool)
    (h : InsertZero src src' t i (.ref z star))
    (hz : ∀ env o, denoteStmts pfx (src.stmts.take t) { anon := a } {} = .ok (env, o) →
      ∃ b, env.seqs.lookup z = some b ∧ b.nucs = [])
    (hplain : ∀ s ∈ src.stmts.drop (t + 1), ∀ opt name strands domain text,
      s = .struct opt name strands domain text → domain = false) :
    denoteComp src' pfx a = denoteComp src pfx a :=
  inert_ref pfx a src src' t i z star h hz hplain

/-- **Inert, quoted region, general form.**  `src'` is `src` with a zero-length quoted region inserted.  Then
    `denoteComp src'` fails iff `denoteComp src` does, with the same error, and otherwise `Out` and the ports are
    those of `src` with the anonymous domains renamed by `ρ` and the counter one higher (`CompRel ρ 1`), for any
    renaming `ρ` that fixes everything the statements before `t` produced (`hpre`), `_Anon m` below the insertion
    point `n1`, the full names of the sequences defined from `t` on (`hok`, which also says that no structure from
    `t` on is domain-level), and maps `_Anon m ↦ _Anon (m+1)` from `n1` on. -/
theorem inert_quoted_general (pfx : String) (a : Nat) (src src' : Src) (t i : Nat) (text : List Char)
    (h : InsertZero src src' t i (.nuc text)) (hq : resolve (parseQuoted text) none = .ok (0, []))
    (ρ : String → String) (n1 : Nat)
    (hpre : ∀ env o, denoteStmts pfx (src.stmts.take t) { anon := a } {} = .ok (env, o) →
      SeqsRel ρ env.seqs env.seqs ∧ StrandsRel ρ env.strands env.strands ∧ rnOut ρ o = o ∧
      ∀ name items len, (src.stmts[t]? = some (.seq name items len) ∨ ∃ d, src.stmts[t]? = some (.strand d name items len)) →
        n1 = env.anon + fixedNucs (items.take i))
    (hlt : ∀ m, m < n1 → ρ (pfx ++ "_Anon" ++ toString m) = pfx ++ "_Anon" ++ toString m)
    (hr : RenumP ρ pfx n1 1)
    (hok : ∀ s ∈ src.stmts.drop t, stmtOk ρ pfx s) :
    ExRel (CompRel ρ 1) (denoteComp src pfx a) (denoteComp src' pfx a) :=
  DenoteZero.inert_quoted pfx a src src' t i text h hq ρ n1 hpre hlt hr hok

/-- the renumbering of full names used in `inert_quoted`: `pfx ++ _Anon m ↦ pfx ++ _Anon (m+k)` for `m ≥ n`;
    `pfx ++ _Anon m` for `m < n`, `pfx ++ x` for every `x` not of the reserved form, and (by definition) every name
    that does not start with `pfx` are left alone; it is injective -/
theorem shiftFull_spec (pfx : String) (n k : Nat) :
    (∀ m, n ≤ m → shiftFull pfx n k (pfx ++ "_Anon" ++ toString m) = pfx ++ "_Anon" ++ toString (m + k)) ∧
    (∀ m, m < n → shiftFull pfx n k (pfx ++ "_Anon" ++ toString m) = pfx ++ "_Anon" ++ toString m) ∧
    (∀ x, isAnon x = false → shiftFull pfx n k (pfx ++ x) = pfx ++ x) ∧
    (∀ s t, shiftFull pfx n k s = shiftFull pfx n k t → s = t) :=
  ⟨shiftFull_renum pfx n k, fun _ hm => shiftFull_lt pfx n k hm, fun _ hx => shiftFull_user pfx n k hx,
   fun _ _ h => shiftFull_injective pfx n k h⟩

/-- **Inert, quoted region.**  `src'` is `src` with a quoted region that resolves to length 0 inserted at position
    `i` of the item list of statement number `t` (a super-sequence or strand statement; for a `sequence` statement
    neither item list may be the single-quoted-region notation of an atomic sequence: `InsStmt`).  If no
    sequence name defined in `src` has the reserved form and no structure statement after `t` is domain-level,
    then for some counter value `n1` (the counter at the insertion point): `denoteComp src'` fails iff
    `denoteComp src` does, with the same error, and otherwise its `Out` is that of `src` with every domain name
    renamed by `shiftFull pfx n1 1` (the anonymous domains from `n1` on are renumbered by one, nothing else moves),
    its ports are the renamed ports, and its counter is one higher. -/
theorem inert_quoted (pfx : String) (a : Nat) (src src' : Src) (t i : Nat) (text : List Char)
    (h : InsertZero src src' t i (.nuc text)) (hq : resolve (parseQuoted text) none = .ok (0, []))
    (hnames : ∀ name items len, Stmt.seq name items len ∈ src.stmts → isAnon name = false)
    (hplain : ∀ s ∈ src.stmts.drop (t + 1), ∀ opt name strands domain text,
      s = .struct opt name strands domain text → domain = false) :
    ∃ n1, ExRel (CompRel (shiftFull pfx n1 1) 1) (denoteComp src pfx a) (denoteComp src' pfx a) :=
  inert_quoted_concrete pfx a src src' t i text h hq hnames hplain

/-- what `ExRel (CompRel ρ k)` says, spelled out -/
theorem compRel_spec (ρ : String → String) (k : Nat)
    (x y : Except Denote.Err (Out × List (List Nuc × Bool) × Nat)) :
    ExRel (CompRel ρ k) x y ↔
      (∃ e, x = .error e ∧ y = .error e) ∨
      (∃ o ports n, x = .ok (o, ports, n) ∧ y = .ok (rnOut ρ o, ports.map (fun p => (rnSeg ρ p.1, p.2)), n + k)) := by
  cases x with
  | error e =>
    cases y with
    | error e' =>
      simp only [ExRel]
      constructor
      · rintro rfl; exact Or.inl ⟨e, rfl, rfl⟩
      · rintro (⟨e0, h1, h2⟩ | ⟨o, ports, n, h1, _⟩)
        · injection h1 with h1; injection h2 with h2; rw [h1, h2]
        · cases h1
    | ok r =>
      simp only [ExRel]
      constructor
      · intro h; exact h.elim
      · rintro (⟨e0, _, h2⟩ | ⟨o, ports, n, h1, _⟩)
        · cases h2
        · cases h1
  | ok r =>
    cases y with
    | error e' =>
      simp only [ExRel]
      constructor
      · intro h; exact h.elim
      · rintro (⟨e0, h1, _⟩ | ⟨o, ports, n, _, h2⟩)
        · cases h1
        · cases h2
    | ok r' =>
      obtain ⟨o, ports, n⟩ := r
      obtain ⟨o', ports', n'⟩ := r'
      simp only [ExRel, CompRel]
      constructor
      · rintro ⟨h1, h2, h3⟩
        exact Or.inr ⟨o, ports, n, rfl, by rw [h1, h2, h3]⟩
      · rintro (⟨e0, h1, _⟩ | ⟨o0, ports0, n0, h1, h2⟩)
        · cases h1
        · injection h1 with h1
          injection h2 with h2
          simp only [Prod.mk.injEq] at h1 h2
          obtain ⟨rfl, rfl, rfl⟩ := h1
          exact ⟨h2.1, h2.2.1, h2.2.2⟩

/-! ### non-vacuity -/

/-- `sequence z = "0N"`, `sequence x = "4N"`, `strand s = x "2A" x*`, a structure on it -/
def exSrc : Src :=
  { name := "T", params := [], inputs := [⟨"x", false, none⟩], outputs := [],
    stmts := [.seq "z" [.nuc "0N".toList] none,
              .seq "x" [.nuc "4N".toList] none,
              .strand false "s" [.ref "x" false, .nuc "2A".toList, .ref "x" true] none,
              .struct .default "S" ["s"] false "((((..))))".toList] }

/-- the same with `z*` inserted in the middle of the strand -/
def exSrcRef : Src :=
  { exSrc with stmts := [.seq "z" [.nuc "0N".toList] none,
              .seq "x" [.nuc "4N".toList] none,
              .strand false "s" [.ref "x" false, .ref "z" true, .nuc "2A".toList, .ref "x" true] none,
              .struct .default "S" ["s"] false "((((..))))".toList] }

/-- the same with a zero-length quoted region inserted at the front of the strand -/
def exSrcQuoted : Src :=
  { exSrc with stmts := [.seq "z" [.nuc "0N".toList] none,
              .seq "x" [.nuc "4N".toList] none,
              .strand false "s" [.nuc "0N".toList, .ref "x" false, .nuc "2A".toList, .ref "x" true] none,
              .struct .default "S" ["s"] false "((((..))))".toList] }

example : resolve (parseQuoted "0N".toList) none = .ok (0, []) := by decide +kernel

example : InsertZero exSrc exSrcQuoted 2 0 (.nuc "0N".toList) :=
  ⟨rfl, rfl, [.seq "z" [.nuc "0N".toList] none, .seq "x" [.nuc "4N".toList] none], _, _,
    [.struct .default "S" ["s"] false "((((..))))".toList], rfl, rfl, rfl,
    InsStmt.strand false "s" [.ref "x" false, .nuc "2A".toList, .ref "x" true] none⟩

example : InsertZero exSrc exSrcRef 2 1 (.ref "z" true) :=
  ⟨rfl, rfl, [.seq "z" [.nuc "0N".toList] none, .seq "x" [.nuc "4N".toList] none], _, _,
    [.struct .default "S" ["s"] false "((((..))))".toList], rfl, rfl, rfl,
    InsStmt.strand false "s" [.ref "x" false, .nuc "2A".toList, .ref "x" true] none⟩

/-- the program denotes something (one anonymous domain `_Anon0 = AA`, the strand has 10 nucleotides) … -/
example : (obsComp (denoteComp exSrc "c-" 0)).map (fun r => (r.domains, r.anon)) =
    some ([("c-x", "NNNN".toList), ("c-_Anon0", "AA".toList)], 1) := by decide +kernel

/-- … and the variant with `z*` inserted denotes exactly the same -/
example : obsComp (denoteComp exSrcRef "c-" 0) = obsComp (denoteComp exSrc "c-" 0) := by decide +kernel

/-- the hypotheses of `inert` are satisfiable: the theorem applied to the concrete pair -/
example : denoteComp exSrcRef "c-" 0 = denoteComp exSrc "c-" 0 := by
  refine inert "c-" 0 exSrc exSrcRef 2 1 "z" true
    ⟨rfl, rfl, [.seq "z" [.nuc "0N".toList] none, .seq "x" [.nuc "4N".toList] none], _, _,
      [.struct .default "S" ["s"] false "((((..))))".toList], rfl, rfl, rfl,
      InsStmt.strand false "s" [.ref "x" false, .nuc "2A".toList, .ref "x" true] none⟩ ?_ ?_
  · intro env o h
    have h1 : exSrc.stmts.take 2 = [.seq "z" [.nuc "0N".toList] none, .seq "x" [.nuc "4N".toList] none] := rfl
    have r0 : resolve (parseQuoted "0N".toList) none = .ok (0, []) := by decide +kernel
    have r4 : resolve (parseQuoted "4N".toList) none = .ok (4, "NNNN".toList) := by decide +kernel
    rw [h1] at h
    simp only [denoteStmts] at h
    rw [zero_definition_adds_nothing "c-" _ _ "z" _ none r0 rfl] at h
    simp only [denoteStmt_atom, r4] at h
    simp only [List.nil_append, List.lookup] at h
    have hx : ("x" == "z") = false := by decide
    simp only [hx, Option.isSome_none, Bool.false_eq_true, if_false, Except.ok.injEq, Prod.mk.injEq] at h
    obtain ⟨rfl, _⟩ := h
    exact ⟨⟨[], [[]], false⟩, by simp [atomResult], rfl⟩
  · intro s hs opt name strands domain text he
    have : exSrc.stmts.drop 3 = [.struct .default "S" ["s"] false "((((..))))".toList] := rfl
    rw [this] at hs
    simp only [List.mem_singleton] at hs
    subst hs
    injection he with _ _ _ h4 _
    exact h4.symm

/-- the variant with `"0N"` inserted consumes `_Anon0` for it: the real region becomes `_Anon1`, the counter 2;
    the domains that remain are the same up to that renumbering -/
example : (obsComp (denoteComp exSrcQuoted "c-" 0)).map (fun r => (r.domains, r.anon)) =
    some ([("c-x", "NNNN".toList), ("c-_Anon1", "AA".toList)], 2) := by decide +kernel

/-- the hypothesis on structures is needed: with a domain-level structure over the strand the original
    denotes something, the variant with a zero-length item inserted is rejected (the notation now has one
    symbol too few) -/
def dSrc : Src :=
  { exSrc with stmts := [.seq "z" [.nuc "0N".toList] none,
              .seq "x" [.nuc "4N".toList] none,
              .strand false "s" [.ref "x" false, .nuc "2A".toList, .ref "x" true] none,
              .struct .default "S" ["s"] true "(.)".toList] }
def dSrcRef : Src :=
  { exSrc with stmts := [.seq "z" [.nuc "0N".toList] none,
              .seq "x" [.nuc "4N".toList] none,
              .strand false "s" [.ref "x" false, .ref "z" true, .nuc "2A".toList, .ref "x" true] none,
              .struct .default "S" ["s"] true "(.)".toList] }

theorem domain_level_counterexample :
    (obsComp (denoteComp dSrc "" 0)).isSome = true ∧ (obsComp (denoteComp dSrcRef "" 0)).isSome = false := by
  decide +kernel

/-- (c) on the compile side: the zero-length `z` is not emitted, `x` and the anonymous region are -/
example : (match Comp.load exSrcRef 0 "c-" 0 with
           | .ok (st, _) => emitPil st
           | .error _ => []) =
    ["sequence c-x = NNNN : 4", "sequence c-_Anon0 = AA : 2", "strand c-s = c-x c-_Anon0 c-x* : 10",
     "structure [1nt] c-S = c-s : ((((..))))"] := by decide +kernel

end Pepper.C14
