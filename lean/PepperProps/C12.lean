import PepperProofs.Fix
import PepperProofs.LoadInvSys
import PepperModel.Generated.Tables
/-!
# C12 — fixing sequences only ever narrows constraints, at the right positions

"Fixing a sequence, signal, strand or structure to a given string replaces each affected position's allowed
bases by the intersection of its previous set and the fixed code, mapped through reverse complement for
starred domains and through the correct offsets for composite objects, and changes nothing else; an empty
intersection or a wrong length is an error, and a name that does not exist only produces a warning."

Code path (mirrors `compiler.py` / `DNA_classes.*.fix_seq`): `PepperModel/Fix.lean` — `fixItem` / `fixList`
recurse through `seqs`, slice the string, reverse-complement it for starred atomic sequences.
Specification: `PepperModel/FixSpec.lean` — the *positions* of an object are read off its `base_seqs` list
(`posOfView`: `(base sequence, index, complemented?)`, the starred view being the reversed list with flipped
flags), `narrow` intersects one position with one letter, `specFix` = length check + one `narrow` per letter.

All theorems hold for **every lawful code table** `t` and **every well-formed component** `st`
(`wfB t st = true`: names distinct; every item reference resolves to an entry of the recorded length and
kind, super-sequences only refer to earlier super-sequences; `base_seqs` of a composite object is the
concatenation of its items' views; constraint strings consist of codes and have the recorded length).
`wfB` is an executable check.  **It is established by `Comp.load` by theorem** (`wf_of_load`, from
`PepperProofs/LoadInv.lean`: `CompWF.WF` + kinds of item references + alphabet of the constraint strings are
preserved by every statement), for every source whose statements satisfy `StmtNamesOk` (no user sequence name
of the reserved form `_Anon<digits>`, containing `*`, or empty — the statement part of C01's `UserNamesOk`) and
`CodesOk t` (quoted regions use codes of the table); for instance trees `wfInst_of_loadFile`
(`PepperProofs/LoadInvSys.lean`).  The section "the same, for whatever `load` returns" restates the theorems
with the hypothesis `Comp.load … = .ok (st, _)` (resp. `Sys.loadFile … = .ok (.sys st, _)`) in place of `wfB`
/ `wfInst`; nothing about well-formedness remains a per-run obligation for sources satisfying the two
hypotheses (the driver still evaluates `wfB` on every generated program: op `fix-spec`, field `wf` — now a
redundant cross-check of the theorem, and the only evidence for sources outside `StmtNamesOk`/`CodesOk`).
Strings are assumed to consist of codes (`parse_fixed` only admits `ATCGNS` and `+`).
-/
namespace Pepper.C12
open Pepper Pepper.Comp Pepper.Fix Pepper.FixSpec Pepper.Sys

variable {t : CodeTable}

/-! ### sequences and super-sequences -/

/-- **exactness**: `x.fix_seq(str)` on any view of any sequence / super-sequence, with any sufficient
    fuel (the compile driver's `seqs.length + 1` is sufficient), is the specification applied to the
    positions of that view: same error class, same resulting component -/
theorem fix_exact (hl : t.lawful = true) {st : St} (hw : wfB t st = true) {name : String} {e : SeqE}
    (he : st.findSeq name = some e) (fuel : Nat) (hfuel : st.seqs.length < fuel) (rev : Bool) (str : List Char)
    (hs : ∀ c ∈ str, t.isCode c = true) :
    fixItem t fuel st name rev str = specFix t st (posOfView st name rev) str :=
  fixItem_top hl hw he fuel hfuel rev str hs

/-- the view has exactly as many positions as the object's recorded length, so "wrong length" is about the
    object's length -/
theorem positions_length (hw : wfB t st = true) {name : String} {e : SeqE} (he : st.findSeq name = some e)
    (rev : Bool) : (posOfView st name rev).length = e.len :=
  posOfView_length hw he rev

/-- a wrong length is the error `length`, and nothing else is -/
theorem fix_length_error_iff (hl : t.lawful = true) {st : St} (hw : wfB t st = true) {name : String} {e : SeqE}
    (he : st.findSeq name = some e) (rev : Bool) (str : List Char) (hs : ∀ c ∈ str, t.isCode c = true) :
    fixItem t (st.seqs.length + 1) st name rev str = .error .length ↔ str.length ≠ e.len := by
  rw [fix_exact hl hw he _ (Nat.lt_succ_self _) rev str hs]
  constructor
  · intro h
    rcases specFix_error h with ⟨_, h2⟩ | ⟨h1, _⟩
    · rw [posOfView_length hw he] at h2; exact fun h3 => h2 h3.symm
    · cases h1
  · intro h
    unfold specFix
    rw [posOfView_length hw he]
    have : (e.len != str.length) = true := by simpa using Ne.symm h
    rw [this]; rfl

/-- with the right length the only possible error is `empty`, raised exactly when the sequence of
    narrowings runs into an empty intersection -/
theorem fix_empty_error_iff (hl : t.lawful = true) {st : St} (hw : wfB t st = true) {name : String} {e : SeqE}
    (he : st.findSeq name = some e) (rev : Bool) (str : List Char) (hs : ∀ c ∈ str, t.isCode c = true)
    (hlen : str.length = e.len) :
    (∃ err, fixItem t (st.seqs.length + 1) st name rev str = .error err) ↔
      fixItem t (st.seqs.length + 1) st name rev str = .error .empty ∧
      specFold t st ((posOfView st name rev).zip str) = none := by
  rw [fix_exact hl hw he _ (Nat.lt_succ_self _) rev str hs]
  constructor
  · rintro ⟨err, h⟩
    rcases specFix_error h with ⟨_, h2⟩ | ⟨h1, _, h3⟩
    · rw [posOfView_length hw he] at h2; exact absurd hlen.symm h2
    · subst h1; exact ⟨h, h3⟩
  · rintro ⟨h, _⟩; exact ⟨_, h⟩

/-- one narrowing step fails exactly when the position's set and the (possibly complemented) letter's set
    are disjoint -/
theorem narrow_fails_iff_disjoint (hl : t.lawful = true) {st : St} (hw : wfB t st = true) {p : Pos} {c x : Char}
    (hc : t.isCode c = true) (hx : charAt st p.1 p.2.1 = some x) :
    narrow t st p c = none ↔ t.maskC x &&& (if p.2.2 then complMask (t.maskC c) else t.maskC c) = 0 :=
  narrow_none_iff hl hw hc hx

/-- **frame**: a successful fix changes nothing but constraint strings (`skel`: names, lengths, items,
    `base_seqs`, strands, structures, kinetics, ports are all untouched), and no code outside the positions
    of the view; the result is again well-formed (so constraint strings keep their lengths) -/
theorem fix_frame (hl : t.lawful = true) {st st' : St} (hw : wfB t st = true) {name : String} {e : SeqE}
    (he : st.findSeq name = some e) (rev : Bool) (str : List Char) (hs : ∀ c ∈ str, t.isCode c = true)
    (h : fixItem t (st.seqs.length + 1) st name rev str = .ok st') :
    skel st' = skel st ∧ wfB t st' = true ∧
    ∀ n i, (∀ f, (n, i, f) ∉ posOfView st name rev) → charAt st' n i = charAt st n i := by
  rw [fix_exact hl hw he _ (Nat.lt_succ_self _) rev str hs] at h
  obtain ⟨_, h⟩ := specFix_ok h
  refine ⟨specFold_skel h, specFold_wf hl hw h, fun n i hni => specFold_frame h n i ?_⟩
  rintro ⟨⟨m, j, f⟩, c⟩ hpc ⟨h1, h2⟩
  simp only at h1 h2
  subst h1; subst h2
  exact hni f (List.of_mem_zip hpc).1

/-- **narrowing**: after a successful fix the base set at every position `(n, i)` is the old set intersected
    with the sets of all letters that landed on it, complemented where the position is read in the
    complementary orientation (`hits`); positions hit by no letter keep their set -/
theorem fix_narrows (hl : t.lawful = true) {st st' : St} (hw : wfB t st = true) {name : String} {e : SeqE}
    (he : st.findSeq name = some e) (rev : Bool) (str : List Char) (hs : ∀ c ∈ str, t.isCode c = true)
    (h : fixItem t (st.seqs.length + 1) st name rev str = .ok st') (n : String) (i : Nat) :
    maskAt t st' n i = (hits t ((posOfView st name rev).zip str) n i).foldl (· &&& ·) (maskAt t st n i) := by
  rw [fix_exact hl hw he _ (Nat.lt_succ_self _) rev str hs] at h
  obtain ⟨_, h⟩ := specFix_ok h
  exact specFold_masks hl h (fun pc hpc => hs pc.2 (List.of_mem_zip hpc).2) n i

/-- **reverse complement for starred views**: fixing `x*` to `str` is fixing `x` to the reverse complement -/
theorem fix_star_is_reverse_complement (hl : t.lawful = true) {st : St} (hw : wfB t st = true) {name : String}
    {e : SeqE} (he : st.findSeq name = some e) (str : List Char) (hs : ∀ c ∈ str, t.isCode c = true) :
    fixItem t (st.seqs.length + 1) st name true str = fixItem t (st.seqs.length + 1) st name false (wc t str) := by
  rw [fix_exact hl hw he _ (Nat.lt_succ_self _) true str hs,
    fix_exact hl hw he _ (Nat.lt_succ_self _) false _ (wc_codes hl hs)]
  exact specFix_star hl hw he str hs

/-- **offsets for composite objects**: the positions of a super-sequence view are the positions of its items'
    views, concatenated in the order of the view -/
theorem positions_of_composite (hw : wfB t st = true) {name : String} {e : SeqE} (he : st.findSeq name = some e)
    (hsup : e.isSup = true) (rev : Bool) :
    posOfView st name rev = (itemsOfView e rev).flatMap (posOfItem st) :=
  posOfView_sup he (seqOK_sup (wfB_seqOK hw (findSeq_mem he)) hsup).2.1 rev

/-- the code at a position after the fix is again a code of the table, and the component stays well-formed:
    fixes can be chained -/
theorem fix_preserves_wf (hl : t.lawful = true) {st st' : St} (hw : wfB t st = true) {pos : List Pos}
    {str : List Char} (h : specFix t st pos str = .ok st') : wfB t st' = true :=
  specFold_wf hl hw (specFix_ok h).2

/-! ### order -/

/-- **two fixes commute**: in either order the compile ends in the same component, or fails in both orders
    (overlapping views included) -/
theorem fix_order_independent (hl : t.lawful = true) {st : St} (hw : wfB t st = true) {n1 n2 : String}
    {e1 e2 : SeqE} (he1 : st.findSeq n1 = some e1) (he2 : st.findSeq n2 = some e2) (r1 r2 : Bool)
    (s1 s2 : List Char) (hs1 : ∀ c ∈ s1, t.isCode c = true) (hs2 : ∀ c ∈ s2, t.isCode c = true) :
    ((fixItem t (st.seqs.length + 1) st n1 r1 s1).bind
        (fun st' => fixItem t (st'.seqs.length + 1) st' n2 r2 s2)).toOption =
    ((fixItem t (st.seqs.length + 1) st n2 r2 s2).bind
        (fun st' => fixItem t (st'.seqs.length + 1) st' n1 r1 s1)).toOption := by
  have after : ∀ {n : String} {e : SeqE} (_ : st.findSeq n = some e) (r : Bool) (s : List Char)
      (_ : ∀ c ∈ s, t.isCode c = true) (x : Except Fix.Err St) (_ : ∀ st', x = .ok st' → ∃ p q, specFix t st p q = .ok st'),
      (x.bind (fun st' => fixItem t (st'.seqs.length + 1) st' n r s)).toOption =
      (x.bind (fun st' => specFix t st' (posOfView st n r) s)).toOption := by
    intro n e he r s hs x hx
    cases x with
    | error _ => rfl
    | ok st' =>
      obtain ⟨p, q, hpq⟩ := hx st' rfl
      have hsk := specFold_skel (specFix_ok hpq).2
      have hw' := fix_preserves_wf hl hw hpq
      have hf := findSeq_congr hsk n
      rw [he] at hf
      cases he' : st'.findSeq n with
      | none => rw [he'] at hf; cases hf
      | some e' =>
        show (fixItem t (st'.seqs.length + 1) st' n r s).toOption = (specFix t st' (posOfView st n r) s).toOption
        rw [fix_exact hl hw' he' _ (Nat.lt_succ_self _) r s hs, posOfView_congr hsk]
  rw [fix_exact hl hw he1 _ (Nat.lt_succ_self _) r1 s1 hs1, fix_exact hl hw he2 _ (Nat.lt_succ_self _) r2 s2 hs2,
    after he2 r2 s2 hs2 _ (fun st' h => ⟨_, _, h⟩), after he1 r1 s1 hs1 _ (fun st' h => ⟨_, _, h⟩)]
  exact specFix_comm hl st _ _ _ _

/-- **any order**: the outcome of a whole list of fixes (as position lists + strings) is the same for every
    permutation of the list — same final component, or failure in every order -/
theorem fix_order_independent_all (hl : t.lawful = true) (st : St) {l1 l2 : List (List Pos × List Char)}
    (h : l1.Perm l2) : (specFixAll t st l1).toOption = (specFixAll t st l2).toOption :=
  specFixAll_perm hl st h

/-! ### strands and structures -/

/-- `Strand.fix_seq` is the specification over the strand's positions (those of its items, concatenated) -/
theorem fix_strand (hl : t.lawful = true) {st : St} (hw : wfB t st = true) {s : StrandE} (hmem : s ∈ st.strands)
    (str : List Char) (hs : ∀ c ∈ str, t.isCode c = true) :
    fixStrand t st s str = specFix t st (posOfBases s.bases) str ∧
    posOfBases s.bases = s.items.flatMap (posOfItem st) :=
  ⟨fixStrand_spec hl hw hmem str hs, posOfBases_strand (wfB_strandOK hw hmem)⟩

/-- `Structure.fix_seq`, wrong number of `+`-separated parts: error `strandCount` -/
theorem fix_struct_count (st : St) (x : StructE) (str : List Char)
    (h : (Notation.splitOn '+' str).length ≠ x.strands.length) :
    fixStruct t st x str = .error .strandCount ∧ specFixStruct t st x str = .error .strandCount :=
  fixStruct_count t st x str h

/-- `Structure.fix_seq`, one part per strand and every part as long as its strand: the specification over the
    positions of all strands in order, fixed to the letters of all parts in order -/
theorem fix_struct_exact (hl : t.lawful = true) {st : St} (hw : wfB t st = true) {x : StructE}
    (hx : x ∈ st.structs) (str : List Char) (hs : ∀ c ∈ str, c = '+' ∨ t.isCode c = true)
    (hcount : (Notation.splitOn '+' str).length = x.strands.length)
    (hlens : ∀ np ∈ x.strands.zip (Notation.splitOn '+' str), (posOfStrandName st np.1).length = np.2.length) :
    fixStruct t st x str = specFixStruct t st x str ∧
    specFixStruct t st x str =
      specFix t st ((x.strands.zip (Notation.splitOn '+' str)).flatMap (fun np => posOfStrandName st np.1))
        (Notation.splitOn '+' str).flatten := by
  refine ⟨fixStruct_exact hl hw hx str hs hcount hlens, ?_⟩
  unfold specFixStruct
  have hc : ((Notation.splitOn '+' str).length != x.strands.length) = false := by simp [hcount]
  have hallB : (x.strands.zip (Notation.splitOn '+' str)).all
      (fun np => (posOfStrandName st np.1).length == np.2.length) = true := by
    rw [List.all_eq_true]; intro np hnp; simpa using hlens np hnp
  simp only [hc, hallB, Bool.false_eq_true, if_false, Bool.not_true]

/-- `Structure.fix_seq`, some part of the wrong length: an error (the specification says `length`; the code
    may have met an empty intersection in an earlier strand first) -/
theorem fix_struct_length (hl : t.lawful = true) {st : St} (hw : wfB t st = true) {x : StructE}
    (hx : x ∈ st.structs) (str : List Char) (hs : ∀ c ∈ str, c = '+' ∨ t.isCode c = true)
    (hcount : (Notation.splitOn '+' str).length = x.strands.length)
    (hbad : ∃ np ∈ x.strands.zip (Notation.splitOn '+' str), (posOfStrandName st np.1).length ≠ np.2.length) :
    (∃ err, fixStruct t st x str = .error err) ∧ specFixStruct t st x str = .error .length :=
  fixStruct_length hl hw hx str hs hcount hbad

/-! ### signals -/

/-- **one binding of a signal** (`fix_signal`, leaf case `seq.fix_seq` / `seq.wc.fix_seq`): the port's
    sequence is fixed to `str` when the parity flag of the binding is false and to the reverse complement
    of `str` when it is true -/
theorem fix_port (hl : t.lawful = true) {cs : St} (hw : wfB t cs = true) {n : String} {e : SeqE}
    (he : cs.findSeq n = some e) (parity : Bool) (str : List Char) (hs : ∀ c ∈ str, t.isCode c = true) :
    fixItem t (cs.seqs.length + 1) cs n parity str =
      specFix t cs (posOfView cs n false) (if parity then wc t str else str) :=
  FixSpec.fix_port hl hw he parity str hs

/-- parities compose through nesting: reverse-complementing twice is the identity, so a port reached through
    bindings with flags `p₁ … pₖ` is fixed to `str` or its reverse complement according to the xor -/
theorem parity_composes (hl : t.lawful = true) (str : List Char) (hs : ∀ c ∈ str, t.isCode c = true) (p q : Bool) :
    (let s1 := if p then wc t str else str; if q then wc t s1 else s1) = if (p != q) then wc t str else str := by
  cases p <;> cases q <;> simp [wc_wc hl str hs]

/-- **signals, through nested systems**: `fix_signal` walks the bindings of the signal in order; a binding to a
    component's port fixes that port's sequence to `str` (parity false) or its reverse complement (parity
    true) — by `fix_port` this is `specFix` over the port's positions —, a binding to a sub-system's signal
    fixes that signal, one level down, to `str` / its reverse complement; a failure anywhere aborts -/
theorem fixSignal_spec (hl : t.lawful = true) (fuel : Nat) (st : SysSt) (name : String) (str : List Char)
    (hs : ∀ c ∈ str, t.isCode c = true) (hw : wfInst t (fuel + 1) (.sys st) = true) :
    fixSignal t (fuel + 1) st name str =
      match st.signals.lookup name with
      | none => .ok none
      | some entries => (entries.foldlM (sigStepSpec t fuel str) st).map some :=
  FixSpec.fixSignal_spec hl fuel st name str hs hw

/-! ### the same, for whatever `load` returns (no well-formedness hypothesis) -/

section of_load
open Pepper.LoadInv
variable {src : Comp.Src} {nargs : Nat} {pfx : String} {a0 a1 : Nat} {st : St}

/-- **`load` establishes the invariant**: the tables of every component the compiler accepts — from a source
    whose statement names are user names and whose quoted regions use codes of the table — are well-formed -/
theorem wf_of_load (hload : Comp.load src nargs pfx a0 = .ok (st, a1)) (hn : StmtNamesOk src = true)
    (hc : CodesOk t src = true) : wfB t st = true :=
  load_wfB hload hn hc

/-- … and so are all components of every instance tree `loadFile` returns, to any depth -/
theorem wfInst_of_loadFile {b : Bundle} (hb : CompNamesCodesOk t b) {fuel : Nat} {base : String} {args : Nat}
    {argKey pfx path : String} {includes : List String} {anon : Nat} {inst : Inst} {a' : Nat}
    (h : Sys.loadFile b fuel base args argKey pfx path includes anon = .ok (inst, a')) (n : Nat) :
    wfInst t n inst = true :=
  loadFile_wfInst hb h n

/-- `fix_exact` for a loaded component -/
theorem fix_exact_of_load (hl : t.lawful = true) (hload : Comp.load src nargs pfx a0 = .ok (st, a1))
    (hn : StmtNamesOk src = true) (hc : CodesOk t src = true) {name : String} {e : SeqE}
    (he : st.findSeq name = some e) (fuel : Nat) (hfuel : st.seqs.length < fuel) (rev : Bool) (str : List Char)
    (hs : ∀ c ∈ str, t.isCode c = true) :
    fixItem t fuel st name rev str = specFix t st (posOfView st name rev) str :=
  fix_exact hl (wf_of_load hload hn hc) he fuel hfuel rev str hs

/-- `fix_length_error_iff` for a loaded component -/
theorem fix_length_error_iff_of_load (hl : t.lawful = true) (hload : Comp.load src nargs pfx a0 = .ok (st, a1))
    (hn : StmtNamesOk src = true) (hc : CodesOk t src = true) {name : String} {e : SeqE}
    (he : st.findSeq name = some e) (rev : Bool) (str : List Char) (hs : ∀ c ∈ str, t.isCode c = true) :
    fixItem t (st.seqs.length + 1) st name rev str = .error .length ↔ str.length ≠ e.len :=
  fix_length_error_iff hl (wf_of_load hload hn hc) he rev str hs

/-- `fix_frame` for a loaded component -/
theorem fix_frame_of_load (hl : t.lawful = true) {st' : St} (hload : Comp.load src nargs pfx a0 = .ok (st, a1))
    (hn : StmtNamesOk src = true) (hc : CodesOk t src = true) {name : String} {e : SeqE}
    (he : st.findSeq name = some e) (rev : Bool) (str : List Char) (hs : ∀ c ∈ str, t.isCode c = true)
    (h : fixItem t (st.seqs.length + 1) st name rev str = .ok st') :
    skel st' = skel st ∧ wfB t st' = true ∧
    ∀ n i, (∀ f, (n, i, f) ∉ posOfView st name rev) → charAt st' n i = charAt st n i :=
  fix_frame hl (wf_of_load hload hn hc) he rev str hs h

/-- `fix_narrows` for a loaded component -/
theorem fix_narrows_of_load (hl : t.lawful = true) {st' : St} (hload : Comp.load src nargs pfx a0 = .ok (st, a1))
    (hn : StmtNamesOk src = true) (hc : CodesOk t src = true) {name : String} {e : SeqE}
    (he : st.findSeq name = some e) (rev : Bool) (str : List Char) (hs : ∀ c ∈ str, t.isCode c = true)
    (h : fixItem t (st.seqs.length + 1) st name rev str = .ok st') (n : String) (i : Nat) :
    maskAt t st' n i = (hits t ((posOfView st name rev).zip str) n i).foldl (· &&& ·) (maskAt t st n i) :=
  fix_narrows hl (wf_of_load hload hn hc) he rev str hs h n i

/-- `fix_star_is_reverse_complement` for a loaded component -/
theorem fix_star_is_reverse_complement_of_load (hl : t.lawful = true)
    (hload : Comp.load src nargs pfx a0 = .ok (st, a1)) (hn : StmtNamesOk src = true) (hc : CodesOk t src = true)
    {name : String} {e : SeqE} (he : st.findSeq name = some e) (str : List Char)
    (hs : ∀ c ∈ str, t.isCode c = true) :
    fixItem t (st.seqs.length + 1) st name true str = fixItem t (st.seqs.length + 1) st name false (wc t str) :=
  fix_star_is_reverse_complement hl (wf_of_load hload hn hc) he str hs

/-- `fix_order_independent` for a loaded component -/
theorem fix_order_independent_of_load (hl : t.lawful = true) (hload : Comp.load src nargs pfx a0 = .ok (st, a1))
    (hn : StmtNamesOk src = true) (hc : CodesOk t src = true) {n1 n2 : String}
    {e1 e2 : SeqE} (he1 : st.findSeq n1 = some e1) (he2 : st.findSeq n2 = some e2) (r1 r2 : Bool)
    (s1 s2 : List Char) (hs1 : ∀ c ∈ s1, t.isCode c = true) (hs2 : ∀ c ∈ s2, t.isCode c = true) :
    ((fixItem t (st.seqs.length + 1) st n1 r1 s1).bind
        (fun st' => fixItem t (st'.seqs.length + 1) st' n2 r2 s2)).toOption =
    ((fixItem t (st.seqs.length + 1) st n2 r2 s2).bind
        (fun st' => fixItem t (st'.seqs.length + 1) st' n1 r1 s1)).toOption :=
  fix_order_independent hl (wf_of_load hload hn hc) he1 he2 r1 r2 s1 s2 hs1 hs2

/-- `fix_strand` for a loaded component -/
theorem fix_strand_of_load (hl : t.lawful = true) (hload : Comp.load src nargs pfx a0 = .ok (st, a1))
    (hn : StmtNamesOk src = true) (hc : CodesOk t src = true) {s : StrandE} (hmem : s ∈ st.strands)
    (str : List Char) (hs : ∀ c ∈ str, t.isCode c = true) :
    fixStrand t st s str = specFix t st (posOfBases s.bases) str ∧
    posOfBases s.bases = s.items.flatMap (posOfItem st) :=
  fix_strand hl (wf_of_load hload hn hc) hmem str hs

/-- `fix_struct_exact` for a loaded component -/
theorem fix_struct_exact_of_load (hl : t.lawful = true) (hload : Comp.load src nargs pfx a0 = .ok (st, a1))
    (hn : StmtNamesOk src = true) (hc : CodesOk t src = true) {x : StructE}
    (hx : x ∈ st.structs) (str : List Char) (hs : ∀ c ∈ str, c = '+' ∨ t.isCode c = true)
    (hcount : (Notation.splitOn '+' str).length = x.strands.length)
    (hlens : ∀ np ∈ x.strands.zip (Notation.splitOn '+' str), (posOfStrandName st np.1).length = np.2.length) :
    fixStruct t st x str = specFixStruct t st x str ∧
    specFixStruct t st x str =
      specFix t st ((x.strands.zip (Notation.splitOn '+' str)).flatMap (fun np => posOfStrandName st np.1))
        (Notation.splitOn '+' str).flatten :=
  fix_struct_exact hl (wf_of_load hload hn hc) hx str hs hcount hlens

/-- `fix_struct_length` for a loaded component -/
theorem fix_struct_length_of_load (hl : t.lawful = true) (hload : Comp.load src nargs pfx a0 = .ok (st, a1))
    (hn : StmtNamesOk src = true) (hc : CodesOk t src = true) {x : StructE}
    (hx : x ∈ st.structs) (str : List Char) (hs : ∀ c ∈ str, c = '+' ∨ t.isCode c = true)
    (hcount : (Notation.splitOn '+' str).length = x.strands.length)
    (hbad : ∃ np ∈ x.strands.zip (Notation.splitOn '+' str), (posOfStrandName st np.1).length ≠ np.2.length) :
    (∃ err, fixStruct t st x str = .error err) ∧ specFixStruct t st x str = .error .length :=
  fix_struct_length hl (wf_of_load hload hn hc) hx str hs hcount hbad

/-- `fix_port` for a loaded component -/
theorem fix_port_of_load (hl : t.lawful = true) (hload : Comp.load src nargs pfx a0 = .ok (st, a1))
    (hn : StmtNamesOk src = true) (hc : CodesOk t src = true) {n : String} {e : SeqE}
    (he : st.findSeq n = some e) (parity : Bool) (str : List Char) (hs : ∀ c ∈ str, t.isCode c = true) :
    fixItem t (st.seqs.length + 1) st n parity str =
      specFix t st (posOfView st n false) (if parity then wc t str else str) :=
  fix_port hl (wf_of_load hload hn hc) he parity str hs

/-- `fixSignal_spec` for a loaded system: for every system `loadFile` returns (from a bundle whose component
    files satisfy `StmtNamesOk` and `CodesOk t`), with no well-formedness hypothesis -/
theorem fixSignal_spec_of_load (hl : t.lawful = true) {b : Bundle} (hb : CompNamesCodesOk t b) {lfuel : Nat}
    {base : String} {args : Nat} {argKey pfx path : String} {includes : List String} {anon : Nat} {sst : SysSt}
    {a' : Nat} (hload : Sys.loadFile b lfuel base args argKey pfx path includes anon = .ok (.sys sst, a'))
    (fuel : Nat) (name : String) (str : List Char) (hs : ∀ c ∈ str, t.isCode c = true) :
    fixSignal t (fuel + 1) sst name str =
      match sst.signals.lookup name with
      | none => .ok none
      | some entries => (entries.foldlM (sigStepSpec t fuel str) sst).map some :=
  fixSignal_spec hl fuel sst name str hs (wfInst_of_loadFile hb hload (fuel + 1))

end of_load

/-! ### names that do not exist -/

/-- a sequence / strand / structure name the component does not have: nothing happens (warning) -/
theorem unknown_name_comp (fuel : Nat) (s : St) (name : String) (str : List Char) :
    (s.findSeq name = none → fixNamed t .sequence (fuel + 1) (.comp s) name str = .ok none) ∧
    (s.findStrand name = none → fixNamed t .strand (fuel + 1) (.comp s) name str = .ok none) ∧
    (s.findStruct name = none → fixNamed t .structure (fuel + 1) (.comp s) name str = .ok none) :=
  ⟨fixNamed_comp_unknown_seq t fuel s name str, fixNamed_comp_unknown_strand t fuel s name str,
   fixNamed_comp_unknown_struct t fuel s name str⟩

/-- in a system: a name without instance prefix, with an unknown instance, or unknown below the instance -/
theorem unknown_name_sys (k : Kind) (fuel : Nat) (st : SysSt) (name : String) (str : List Char) :
    (splitFirstDash name = none → fixNamed t k (fuel + 1) (.sys st) name str = .ok none) ∧
    (∀ cn rest, splitFirstDash name = some (cn, rest) → st.components.lookup cn = none →
      fixNamed t k (fuel + 1) (.sys st) name str = .ok none) ∧
    (∀ cn rest sub, splitFirstDash name = some (cn, rest) → st.components.lookup cn = some sub →
      fixNamed t k fuel sub rest str = .ok none → fixNamed t k (fuel + 1) (.sys st) name str = .ok none) :=
  ⟨fixNamed_sys_no_dash t k fuel st name str,
   fun cn rest h h2 => fixNamed_sys_unknown_inst t k fuel st name cn rest str h h2,
   fun cn rest sub h h2 h3 => fixNamed_sys_unknown_below t k fuel st name cn rest str sub h h2 h3⟩

/-- a signal name the system does not have -/
theorem unknown_signal (fuel : Nat) (st : SysSt) (name : String) (str : List Char)
    (h : st.signals.lookup name = none) : fixSignal t (fuel + 1) st name str = .ok none :=
  fixSignal_unknown t fuel st name str h

/-! ### non-vacuity: a concrete component, the live table -/

open Pepper.Generated in
/-- `a = "4N"`, `b = "2S"`, `x = a b*`, strand `S = x a*`, structure `G = S` (what `Comp.load` builds) -/
def exSt : St :=
  { name := "T", pfx := "",
    seqs := [ ⟨"a", false, false, 4, "NNNN".toList, [], [⟨"a", false, 4⟩], true⟩,
              ⟨"b", false, false, 2, "SS".toList, [], [⟨"b", false, 2⟩], true⟩,
              ⟨"x", true, false, 6, [], [⟨"a", false, 4, false⟩, ⟨"b", true, 2, false⟩],
                [⟨"a", false, 4⟩, ⟨"b", true, 2⟩], false⟩ ],
    strands := [ ⟨"S", false, 10, [⟨"x", false, 6, true⟩, ⟨"a", true, 4, false⟩],
                  [⟨"a", false, 4⟩, ⟨"b", true, 2⟩, ⟨"a", true, 4⟩], true⟩ ],
    structs := [ ⟨"G", ⟨['1'], []⟩, ["S"], "..........".toList, [⟨"a", false, 4⟩, ⟨"b", true, 2⟩, ⟨"a", true, 4⟩]⟩ ] }

theorem dna_lawful : Generated.dnaTable.lawful = true := by decide

example : wfB Generated.dnaTable exSt = true := by decide

/-- non-vacuity of the `_of_load` theorems: a source the compiler accepts, satisfying both hypotheses -/
def exSrc : Comp.Src :=
  { name := "T", params := [], inputs := [], outputs := [],
    stmts := [ .seq "a" [.nuc "4N".toList] none, .seq "b" [.nuc "2S".toList] none,
               .seq "x" [.ref "a" false, .ref "b" true] none,
               .strand false "S" [.ref "x" false, .ref "a" true] none,
               .struct .default "G" ["S"] false "..........".toList ] }

example : LoadInv.StmtNamesOk exSrc = true ∧ CodesOk Generated.dnaTable exSrc = true := by decide +kernel
/-- `load` accepts it and builds `exSt` (up to the `anon`/`params` fields the theorems do not read) -/
example : (Comp.load exSrc 0 "" 0).toOption.map (fun r => (r.1.seqs, r.1.strands, r.1.structs)) =
    some (exSt.seqs, exSt.strands, exSt.structs) := by decide +kernel

/-- positions of `x` and of `x*` -/
example : posOfView exSt "x" false =
    [("a", 0, false), ("a", 1, false), ("a", 2, false), ("a", 3, false), ("b", 1, true), ("b", 0, true)] := by decide
example : posOfView exSt "x" true =
    [("b", 0, false), ("b", 1, false), ("a", 3, true), ("a", 2, true), ("a", 1, true), ("a", 0, true)] := by decide

/-- fixing `x` to `ACGTCG` makes `a = ACGT` and `b = CG` (the last two letters land on `b` complemented and
    reversed) — through the *code path*, by `fix_exact` -/
example : (fixItem Generated.dnaTable 4 exSt "x" false "ACGTCG".toList).toOption.map (fun s => s.seqs.map (·.const))
    = some ["ACGT".toList, "CG".toList, []] := by
  rw [fix_exact dna_lawful (by decide) (e := exSt.seqs[2]) (by decide) 4 (by decide) false _ (by decide)]
  decide

/-- overlapping positions: strand `S = a b* a*` fixed to `ANNNNNNNNT`… the first letter `A` and the last
    letter `T` (complemented: `A`) both land on `a[0]`: consistent, `a = ANNN` -/
example : (specFix Generated.dnaTable exSt (posOfBases exSt.strands[0].bases) "ANNNNNNNNT".toList).toOption.map
    (fun s => s.seqs.map (·.const)) = some ["ANNN".toList, "SS".toList, []] := by decide

/-- … and conflicting letters on the same nucleotide are an error -/
example : (match specFix Generated.dnaTable exSt (posOfBases exSt.strands[0].bases) "ANNNNNNNNA".toList with
    | .error .empty => true | _ => false) = true := by decide

/-- a wrong length is an error -/
example : (match specFix Generated.dnaTable exSt (posOfView exSt "x" false) "ACG".toList with
    | .error .length => true | _ => false) = true := by decide

/-- `S` against `SS`: `A` is outside the constraint -/
example : (match specFix Generated.dnaTable exSt (posOfView exSt "b" false) "AC".toList with
    | .error .empty => true | _ => false) = true := by decide

end Pepper.C12
