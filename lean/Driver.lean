import Driver.Main
